// Simulated stream layer: an in-memory file presented through std::streambuf.
// Reads are delivered in plan-chosen chunk sizes (legal behaviour that must not change any result);
// STREAM_EOF(k): the file ends after byte k; STREAM_WRITE_ERR(k): the k-th byte cannot be written.
#pragma once
#include <cstring>
#include <streambuf>
#include <vector>

#include "world.hpp"

namespace sim {

class membuf : public std::streambuf {
	std::vector<char>* data_;
	std::size_t        rpos_ = 0;
	int                chunk_;
	bool               eof_forced_ = false;
	char               ibuf_[64];

 public:
	membuf(std::vector<char>* data, int chunk_r) : data_{data}, chunk_{chunk_r <= 0 || chunk_r > 64 ? 64 : chunk_r} {}

 protected:
	auto underflow() -> int_type override {
		if(eof_forced_ || rpos_ >= data_->size()) return traits_type::eof();
		std::size_t n = std::min<std::size_t>(static_cast<std::size_t>(chunk_), data_->size() - rpos_);
		std::size_t deliver = 0;
		for(; deliver < n; ++deliver) {
			W.event(E_SREAD);
			if(W.hit(F_EOF)) {
				eof_forced_ = true;
				break;
			}
		}
		if(deliver == 0) return traits_type::eof();
		std::memcpy(ibuf_, data_->data() + rpos_, deliver);
		rpos_ += deliver;
		setg(ibuf_, ibuf_, ibuf_ + deliver);
		return traits_type::to_int_type(ibuf_[0]);
	}
	auto overflow(int_type c) -> int_type override {
		if(traits_type::eq_int_type(c, traits_type::eof())) return traits_type::not_eof(c);
		W.event(E_SWRITE);
		if(W.hit(F_WERR)) return traits_type::eof();
		data_->push_back(traits_type::to_char_type(c));
		return c;
	}
	auto xsputn(char const* s, std::streamsize n) -> std::streamsize override {
		for(std::streamsize i = 0; i < n; ++i)
			if(traits_type::eq_int_type(overflow(traits_type::to_int_type(s[i])), traits_type::eof())) return i;
		return n;
	}
};

}  // namespace sim
