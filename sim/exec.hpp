// Plan executor: drives the real library, the reference model and the invariant checks.
// Execution is a pure function of (plan, binary): no randomness, no clock, no address-dependent decision.
#pragma once
#include <cstring>
#include <set>
#include <sstream>
#include <string>
#include <tuple>
#include <utility>
#include <vector>

#include <boost/multi/array.hpp>

#include "alloc.hpp"
#include "exec_api.hpp"
#include "elem.hpp"
#include "modelops.hpp"
#include "views.hpp"

namespace sim {

// ---------------------------------------------------------------- helpers over the real library
template<class Tuple, std::size_t... I> void tuple_to_ints(Tuple const& t, int* out, std::index_sequence<I...>) {
	using boost::multi::detail::get;
	((out[I] = static_cast<int>(get<I>(t))), ...);
}
template<int D, class A> void real_sizes(A const& a, int* out) { tuple_to_ints(a.sizes(), out, std::make_index_sequence<D>{}); }

template<int D, std::size_t... I> auto make_exts_impl(int const* x, std::index_sequence<I...>) {
	return multi::extensions_t<D>{multi::iextension(x[I])...};
}
template<int D> auto make_exts(int const* x) { return make_exts_impl<D>(x, std::make_index_sequence<D>{}); }

template<class ET, class V> void read_brackets(V const& v, std::vector<i64>& out, bool& ok) {
	constexpr int R = std::decay_t<V>::rank_v;
	for(auto i : v.extension()) {
		if constexpr(R == 1) out.push_back(ET::read(v[i], ok));
		else read_brackets<ET>(v[i], out, ok);
	}
}
// reads a view of plain i64 (the result of reinterpret_array_cast) in canonical order
template<class V> void read_i64(V const& v, std::vector<i64>& out) {
	constexpr int R = std::decay_t<V>::rank_v;
	for(auto i : v.extension()) {
		if constexpr(R == 1) out.push_back(static_cast<i64>(v[i]));
		else read_i64(v[i], out);
	}
}
template<class ET, class V> void read_iterators(V const& v, std::vector<i64>& out, bool& ok) {
	constexpr int R = std::decay_t<V>::rank_v;
	for(auto it = v.begin(); it != v.end(); ++it) {
		if constexpr(R == 1) out.push_back(ET::read(*it, ok));
		else read_iterators<ET>(*it, out, ok);
	}
}
template<class ET, class V> void read_elements(V const& v, std::vector<i64>& out, bool& ok) {
	auto&& els = v.elements();
	auto   n   = els.size();
	for(decltype(n) k = 0; k < n; ++k) out.push_back(ET::read(els[k], ok));
}
// through the elements range's iterators and their operator-> (the pointer they hand out is dereferenced)
template<class ET, class V> void read_elements_arrow(V const& v, std::vector<i64>& out, bool& ok) {
	auto&& els = v.elements();
	for(auto it = els.begin(); it != els.end(); ++it) out.push_back(ET::read(*(it.operator->()), ok));
}
template<class V> decltype(auto) elem_at(V&& v, int const* idx) {
	constexpr int R = std::decay_t<V>::rank_v;
	if constexpr(R == 1) return std::forward<V>(v)[idx[0]];
	else return elem_at(std::forward<V>(v)[idx[0]], idx + 1);
}

// ---------------------------------------------------------------- the executor
template<class Cfg>
struct Exec {
	using E  = typename Cfg::elem;
	using ET = elem_traits<E>;
	using A  = typename Cfg::alloc;
	using P  = typename std::allocator_traits<A>::pointer;
	using CE = typename ET::conv;
	template<int D> using Arr  = typename Cfg::template array_t<D>;
	template<int D> using HArr = multi::array<E, D, hallocator<E>>;     // harness-owned arrays (range sources)
	template<int D> using CArr = multi::array<CE, D, hallocator<CE>>;   // arrays of the convertible element type
	using AV = AnyView<E, P>;

	static constexpr int DMIN = Cfg::dmin, DMAX = Cfg::dmax;

	template<int D> struct Pool {
		alignas(16) unsigned char buf[NSLOT][sizeof(Arr<D>)];
		auto at(int i) -> Arr<D>& { return *reinterpret_cast<Arr<D>*>(buf[i]); }
		auto raw(int i) -> void* { return buf[i]; }
	};
	std::tuple<Pool<1>, Pool<2>, Pool<3>, Pool<4>> pools;
	template<int D> auto pool() -> Pool<D>& { return std::get<D - 1>(pools); }
	// zero-dimensional arrays live in their own pool and have their own (small) operation set
	static constexpr bool HAS_D0 = Cfg::dmin == 0;
	struct NoArr0 {};
	using Arr0 = typename std::conditional_t<HAS_D0, typename Cfg::template array_t_lazy<0>, std::enable_if<true, NoArr0>>::type;
	struct Pool0 {
		alignas(16) unsigned char buf[NSLOT][sizeof(Arr0)];
		auto at(int i) -> Arr0& { return *reinterpret_cast<Arr0*>(buf[i]); }
		auto raw(int i) -> void* { return buf[i]; }
	} pool0_;

	Model       M;
	ModelTraits T;
	bool        tainted[MAXD + 1][NSLOT]{};  // slot was the target of a failed operation earlier in this run
	bool        run_faulted = false;
	RunResult   R;
	Op const*   cur = nullptr;
	Effect      eff;

	Exec() {
		T.trivial       = ET::trivial;
		T.serialization = Cfg::serialization;
		T.tracked       = ET::tracked;
		T.mpi           = Cfg::mpi;
		T.ctor_default_inits = Cfg::default_init;
		T.always_equal  = Cfg::always_equal;
		T.tracked_is_triv = std::is_same_v<typename Cfg::elem, Triv>;
		T.assign_throws   = std::is_same_v<typename Cfg::elem, TrivA>;
		T.pocca         = Cfg::pocca;
		T.pocma         = Cfg::pocma;
		T.pocs          = Cfg::pocs;
		T.soccc_default = Cfg::soccc_default;
		T.fancy         = Cfg::fancy;
		T.dmin          = DMIN;
		T.dmax          = DMAX;
		T.static_arrays = Cfg::static_arrays;
		T.throwing_move = ET::throwing_move;
	}

	template<class F> bool with_dim(int D, F&& f) {
		if(D < DMIN || D > DMAX || D < 1) return false;
		switch(D) {
		case 1: if constexpr(DMIN <= 1 && 1 <= DMAX) { f(std::integral_constant<int, 1>{}); return true; } break;
		case 2: if constexpr(DMIN <= 2 && 2 <= DMAX) { f(std::integral_constant<int, 2>{}); return true; } break;
		case 3: if constexpr(DMIN <= 3 && 3 <= DMAX) { f(std::integral_constant<int, 3>{}); return true; } break;
		case 4: if constexpr(DMIN <= 4 && 4 <= DMAX) { f(std::integral_constant<int, 4>{}); return true; } break;
		default: break;
		}
		return false;
	}

	// ---- real view of (D, slot, chain)
	bool real_view(int D, int slot, Chain const& c, AV& out) {
		bool ok = with_dim(D, [&](auto Dc) {
			constexpr int DD = decltype(Dc)::value;
			auto&         a  = pool<DD>().at(slot);
			erase_view<E, P>(a(), out);
		});
		if(!ok) return false;
		apply_chain_real(out, c);
		return true;
	}

	// ---- reading real state
	template<int D> void read_array(Arr<D> const& a, int path, std::vector<i64>& out, bool& ok) {
		out.clear();
		if(a.num_elements() == 0) return;
		if(path == 0) read_brackets<ET>(a, out, ok);
		else if(path == 1) {
			auto p = a.data_elements();
			auto n = a.num_elements();
			for(decltype(n) k = 0; k < n; ++k) out.push_back(ET::read(p[k], ok));
		} else read_iterators<ET>(a, out, ok);
	}

	void fail(char const* inv, std::string detail) { W.violate(inv, std::move(detail)); }

	// I5: the array's own description of itself is consistent with the ledger and the registry
	template<int D> bool valid_array(Arr<D> const& a, std::string const& who, bool report_as_i1) {
		int  n[MAXD]{};
		real_sizes<D>(a, n);
		long p = prod(n, D);
		long ne = static_cast<long>(a.num_elements());
		char const* pre = report_as_i1 ? "I1" : "I5";
		if(ne < 0 || p != ne) {
			fail(report_as_i1 ? "I4-extents" : "I5-extents-inconsistent", who + ": num_elements()=" + std::to_string(ne) + " but sizes() multiply to " + std::to_string(p));
			return false;
		}
		if(ne == 0) return true;
		auto const* base = raw_of(a.data_elements());
		int const   id   = W.find_block(base);
		if(id < 0) {
			fail((std::string(pre) + "-dangling-base").c_str(), who + ": data_elements() = " + W.describe(base) + " is not a block");
			return false;
		}
		Block const& b = W.blocks[static_cast<std::size_t>(id)];
		if(!b.live || W.addr(b.arena, b.off) != reinterpret_cast<unsigned char const*>(base)) {
			fail((std::string(pre) + "-dangling-base").c_str(), who + ": data_elements() = " + W.describe(base) + " is not the start of a live block");
			return false;
		}
		if(b.bytes != static_cast<u64>(ne) * sizeof(E)) {
			fail((std::string(pre) + "-size-mismatch").c_str(), who + ": owns " + std::to_string(ne) + " elements but its block holds " + std::to_string(b.bytes / sizeof(E)));
			return false;
		}
		if(b.arena != Cfg::arena_of(a.get_allocator())) {
			fail("I1-foreign-arena", who + ": block lives in arena" + std::to_string(b.arena) + " but get_allocator() is on arena" + std::to_string(Cfg::arena_of(a.get_allocator())));
			// the array is otherwise well formed: keep checking (and counting) it
		}
		if constexpr(ET::tracked) {
			for(long k = 0; k < ne; ++k) {
				if(!base[k].is_live()) {
					fail("I2-dead-object-in-array", who + ": element " + std::to_string(k) + " of " + std::to_string(ne) + " is not alive");
					return false;
				}
			}
		}
		return true;
	}

	bool valid0(int slot, std::string const& who, bool report_as_i1) {
		if constexpr(HAS_D0) {
			Arr0 const& a   = pool0_.at(slot);
			char const* pre = report_as_i1 ? "I1" : "I5";
			if(a.num_elements() != 1) { fail(report_as_i1 ? "I4-extents" : "I5-extents-inconsistent", who + ": a zero-dimensional array reports num_elements()=" + std::to_string(a.num_elements())); return false; }
			auto const* base = raw_of(a.base());
			int const   id   = W.find_block(base);
			if(id < 0 || !W.blocks[static_cast<std::size_t>(id)].live || W.addr(W.blocks[static_cast<std::size_t>(id)].arena, W.blocks[static_cast<std::size_t>(id)].off) != reinterpret_cast<unsigned char const*>(base)) {
				fail((std::string(pre) + "-dangling-base").c_str(), who + ": base() = " + W.describe(base) + " is not the start of a live block");
				return false;
			}
			Block const& b = W.blocks[static_cast<std::size_t>(id)];
			if(b.bytes != sizeof(E)) { fail((std::string(pre) + "-size-mismatch").c_str(), who + ": its block holds " + std::to_string(b.bytes / sizeof(E)) + " elements"); return false; }
			if(b.arena != Cfg::arena_of(a.get_allocator())) fail("I1-foreign-arena", who + ": block lives in arena" + std::to_string(b.arena) + " but get_allocator() is on arena" + std::to_string(Cfg::arena_of(a.get_allocator())));
			if constexpr(ET::tracked) {
				if(!base[0].is_live()) { fail("I2-dead-object-in-array", who + ": its element is not alive"); return false; }
			}
			return true;
		} else {
			(void)slot; (void)who; (void)report_as_i1;
			return false;
		}
	}
	void resync0(int slot) {
		if constexpr(HAS_D0) {
			MArr& m = M.at(0, slot);
			bool  ok = true;
			m.D = 0;
			m.v.assign(1, ET::read(*raw_of(pool0_.at(slot).base()), ok));
			m.arena = Cfg::arena_of(pool0_.at(slot).get_allocator());
			m.alive = true;
			probe(P_DIRTY_RESYNC);
		} else (void)slot;
	}
	bool run_real_d0(Op const& op);

	template<int D> void resync(int slot) {
		Arr<D>& a = pool<D>().at(slot);
		MArr&   m = M.at(D, slot);
		int     n[MAXD]{};
		real_sizes<D>(a, n);
		set_dims(m, D, n);
		bool ok = true;
		read_array<D>(a, 1, m.v, ok);
		m.arena = Cfg::arena_of(a.get_allocator());
		m.alive = true;
		probe(P_DIRTY_RESYNC);
	}

	// ---- global invariants after every step
	void check_invariants() {
		W.check_memory();  // I3
		int  owners = 0;
		long elems  = 0;
		for(int D = DMIN; D <= DMAX; ++D) {
			with_dim(D, [&](auto Dc) {
				constexpr int DD = decltype(Dc)::value;
				for(int i = 0; i < NSLOT; ++i) {
					MArr const& m = M.at(DD, i);
					if(!m.alive) continue;
					Arr<DD>&          a   = pool<DD>().at(i);
					std::string const who = "array<" + std::to_string(DD) + ">#" + std::to_string(i);
					if(!valid_array<DD>(a, who, true)) continue;
					if(a.num_elements() > 0) {
						++owners;
						elems += static_cast<long>(a.num_elements());
					}
					// I4
					int n[MAXD]{};
					real_sizes<DD>(a, n);
					if(m.count() == 0) {
						if(a.num_elements() != 0 || !a.is_empty() || a.size() != 0) fail("I4-extents", who + ": model is empty but the array reports num_elements()=" + std::to_string(a.num_elements()) + " size()=" + std::to_string(a.size()));
						else if(m.exact_empty) {  // an empty shape with leading extent 0 is reported as requested, and copies keep it
							bool same = true;
							for(int k = 0; k < DD; ++k) same &= n[k] == m.n[k];
							if(!same) {
								std::string s = who + ": empty with extents (";
								for(int k = 0; k < DD; ++k) s += (k ? "," : "") + std::to_string(n[k]);
								s += ") but the model has (";
								for(int k = 0; k < DD; ++k) s += (k ? "," : "") + std::to_string(m.n[k]);
								fail("I4-extents", s + ")");
							}
						}
					} else {
						bool same = true;
						for(int k = 0; k < DD; ++k) same &= n[k] == m.n[k];
						if(!same || a.size() != m.n[0] || static_cast<long>(a.num_elements()) != m.count() || a.is_empty()) {
							std::string s = who + ": extents (";
							for(int k = 0; k < DD; ++k) s += (k ? "," : "") + std::to_string(n[k]);
							s += ") but the model has (";
							for(int k = 0; k < DD; ++k) s += (k ? "," : "") + std::to_string(m.n[k]);
							fail("I4-extents", s + ")");
						} else {
							std::vector<i64> v0, v1;
							bool             ok = true;
							read_array<DD>(a, (W.step + i) % 3 == 0 ? 2 : 0, v0, ok);
							read_array<DD>(a, 1, v1, ok);
							if(!ok) fail("LIFE-use-of-dead", who + ": holds an element that is not alive");
							else if(v0 != v1) fail("I4-value", who + ": two access paths to the same elements disagree");
							else if(v0 != m.v) {
								std::size_t k = 0;
								while(k < v0.size() && v0[k] == m.v[k]) ++k;
								fail(m.v[k] == FRESH_I64 ? "P-wrote-trivial" : "I4-value", who + ": element " + std::to_string(k) + " is " + std::to_string(v0[k]) + " but the model has " + std::to_string(m.v[k]) + (m.v[k] == FRESH_I64 ? " (the bit pattern of a fresh block: the element must not have been written)" : ""));
							}
						}
					}
					if(Cfg::arena_of(a.get_allocator()) != m.arena) fail("I4-allocator", who + ": get_allocator() is on arena" + std::to_string(Cfg::arena_of(a.get_allocator())) + " but the model expects arena" + std::to_string(m.arena));
				}
			});
		}
		if constexpr(HAS_D0) {
			for(int i = 0; i < NSLOT; ++i) {
				MArr const& m = M.at(0, i);
				if(!m.alive) continue;
				std::string const who = "array<0>#" + std::to_string(i);
				if(!valid0(i, who, true)) continue;
				++owners;
				elems += 1;
				bool      ok = true;
				i64 const v  = ET::read(static_cast<E const&>(pool0_.at(i)), ok);
				i64 const w  = ET::read(*raw_of(pool0_.at(i).base()), ok);
				if(!ok) fail("LIFE-use-of-dead", who + ": holds an element that is not alive");
				else if(v != w) fail("I4-value", who + ": two access paths to the same element disagree");
				else if(m.v.size() != 1 || v != m.v[0]) fail(m.v.size() == 1 && m.v[0] == FRESH_I64 ? "P-wrote-trivial" : "I4-value", who + ": the element is " + std::to_string(v) + " but the model has " + (m.v.size() == 1 ? std::to_string(m.v[0]) : std::string("no element")));
				if(Cfg::arena_of(pool0_.at(i).get_allocator()) != m.arena) fail("I4-allocator", who + ": get_allocator() is on arena" + std::to_string(Cfg::arena_of(pool0_.at(i).get_allocator())) + " but the model expects arena" + std::to_string(m.arena));
			}
		}
		// storage of different arrays is pairwise disjoint ("shares no storage")
		{
			struct Span { unsigned char const* lo; unsigned char const* hi; int D, i; };
			std::vector<Span> spans;
			for(int D = DMIN; D <= DMAX; ++D)
				with_dim(D, [&](auto Dc) {
					constexpr int DD = decltype(Dc)::value;
					for(int i = 0; i < NSLOT; ++i)
						if(M.at(DD, i).alive && pool<DD>().at(i).num_elements() > 0) {
							auto const* b = reinterpret_cast<unsigned char const*>(raw_of(pool<DD>().at(i).data_elements()));
							spans.push_back({b, b + static_cast<std::size_t>(pool<DD>().at(i).num_elements()) * sizeof(E), DD, i});
						}
				});
			for(std::size_t x = 0; x < spans.size(); ++x)
				for(std::size_t y = x + 1; y < spans.size(); ++y)
					if(spans[x].lo < spans[y].hi && spans[y].lo < spans[x].hi) {
						fail("I4-shared-storage", "array<" + std::to_string(spans[x].D) + ">#" + std::to_string(spans[x].i) + " and array<" + std::to_string(spans[y].D) + ">#" + std::to_string(spans[y].i) + " overlap in storage: a mutation of one is visible through the other");
						x = spans.size();
						break;
					}
		}
		// I1: live blocks == owners
		int live = 0;
		for(int a = 0; a < World::NARENA; ++a) live += W.live_blocks(a);
		if(live > owners) {
			std::string which;
			for(int a = 0; a < World::NARENA && which.empty(); ++a)
				for(int id : W.by_off[a]) {
					Block const& b = W.blocks[static_cast<std::size_t>(id)];
					if(!b.live || b.harness) continue;
					bool owned = false;
					for(int D = DMIN; D <= DMAX && !owned; ++D)
						with_dim(D, [&](auto Dc) {
							constexpr int DD = decltype(Dc)::value;
							for(int i = 0; i < NSLOT; ++i)
								if(M.at(DD, i).alive && pool<DD>().at(i).num_elements() > 0 && reinterpret_cast<unsigned char const*>(raw_of(pool<DD>().at(i).data_elements())) == W.addr(b.arena, b.off)) owned = true;
						});
					if constexpr(HAS_D0) {
						for(int i = 0; i < NSLOT; ++i)
							if(M.at(0, i).alive && reinterpret_cast<unsigned char const*>(raw_of(pool0_.at(i).base())) == W.addr(b.arena, b.off)) owned = true;
					}
					if(!owned) {
						which         = "arena" + std::to_string(b.arena) + ".block#" + std::to_string(b.serial) + " (n=" + std::to_string(b.n) + ", allocated in step " + std::to_string(b.step) + ")";
						leak_in_faulted_step_ = b.step >= 0 && static_cast<std::size_t>(b.step) < step_faulted_.size() && step_faulted_[static_cast<std::size_t>(b.step)];
						break;
					}
				}
			fail("I1-leaked-block", std::to_string(live) + " live blocks but only " + std::to_string(owners) + " owning arrays: " + which + " has no owner");
		} else if(live < owners) {
			fail("I1-missing-block", std::to_string(owners) + " non-empty arrays but only " + std::to_string(live) + " live blocks");
		}
		// I2: objects
		if constexpr(ET::tracked) {
			if(W.live_arena != elems + harness_elems_) fail(W.live_arena > elems + harness_elems_ ? "I2-leaked-object" : "I2-missing-object", std::to_string(W.live_arena) + " live element objects inside the arenas but the arrays own " + std::to_string(elems + harness_elems_));
			if(W.live_ext_inop != 0) fail("I2-leaked-object", std::to_string(W.live_ext_inop) + " element object(s) created outside the arenas during a library operation are still alive");
		}
	}
	long              harness_elems_ = 0;
	bool              leak_in_faulted_step_ = false;
	std::vector<bool> step_faulted_;

	// ---------------------------------------------------------------- one step
	u64 digest() {
		u64 h = 1469598103934665603ull;
		for(int D = DMIN; D <= DMAX; ++D)
			for(int i = 0; i < NSLOT; ++i) {
				MArr const& m = M.at(D, i);
				World::mix(h, m.alive ? 1 : 0);
				if(!m.alive) continue;
				World::mix(h, static_cast<u64>(m.count()));
				if(m.count() > 0)
					for(int k = 0; k < D; ++k) World::mix(h, static_cast<u64>(m.n[k]));
				for(i64 v : m.v) World::mix(h, static_cast<u64>(v));
			}
		return h;
	}

	void situation(Op const& op, bool threw) {
		u64 h = 1469598103934665603ull;
		World::mix(h, static_cast<u64>(op.kind));
		for(char c : eff.variant) World::mix(h, static_cast<u64>(c));
		World::mix(h, static_cast<u64>(op.da * 8 + op.db));
		World::mix(h, static_cast<u64>(op.ca.n * 4 + op.cb.n));
		for(int i = 0; i < op.ca.n; ++i) World::mix(h, static_cast<u64>(op.ca.s[i].kind));
		for(int i = 0; i < op.cb.n; ++i) World::mix(h, static_cast<u64>(op.cb.s[i].kind + 32));
		World::mix(h, static_cast<u64>(W.fired ? op.fk : 0));
		World::mix(h, threw ? 1 : 0);
		long const e = eff.elems;
		World::mix(h, static_cast<u64>(e == 0 ? 0 : e == 1 ? 1 : e < 8 ? 2 : 3));
		G.situations.insert(h);
		if(e > 0 || W.fired) G.situations_nontrivial.insert(h);
	}

	template<int D> bool same_real_extents(Arr<D> const& a, int const* n) {
		int r[MAXD]{};
		real_sizes<D>(a, r);
		for(int k = 0; k < D; ++k)
			if(r[k] != n[k]) return false;
		return true;
	}

	// executes the real operation; returns false if the harness cannot express it (counts as skipped)
	bool run_real(Op const& op);

	void step(int idx, Op const& op) {
		W.step = idx;
		cur    = &op;
		step_faulted_.push_back(false);
		if(!plan_effect(M, T, op, eff)) {
			++R.ops_skipped;
			++G.skipped;
			W.log_full(0xEEEE0000u + static_cast<u64>(op.kind));
			return;
		}
		// situation bookkeeping for crash reports
		g_crash.step        = idx;
		g_crash.op_kind     = op.kind;
		g_crash.fault_kind  = op.fk;
		g_crash.fault_fired = false;
		std::snprintf(g_crash.variant, sizeof g_crash.variant, "%s", eff.variant.c_str());

		// pre-state needed by postconditions
		void const* base_before = nullptr;
		if(eff.expect_base_unchanged && eff.nt > 0) {
			with_dim(eff.tD[0], [&](auto Dc) { base_before = raw_of(pool<decltype(Dc)::value>().at(eff.ti[0]).data_elements()); });
			if constexpr(HAS_D0) { if(eff.tD[0] == 0) base_before = raw_of(pool0_.at(eff.ti[0]).base()); }
		}
		bool involved_tainted = false;
		for(int k = 0; k < eff.nt; ++k) involved_tainted |= tainted[eff.tD[k]][eff.ti[k]];
		if(op.db >= DMIN && op.db <= DMAX && op.b >= 0 && op.b < NSLOT) involved_tainted |= tainted[op.db][op.b];

		if(op.fk != F_NONE) {
			W.arm(op.fk, op.fn);
			++G.armed[op.fk];
		}
		bool threw = false, wrong_exc = false;
		threw_what_.clear();
		bool const done = run_real_guarded(op, threw, wrong_exc);
		bool const fired = W.fired;
		g_crash.fault_fired = fired;
		if(g_collect_fcnt) {
			std::array<int, F_COUNT> c{};
			for(int k = 0; k < F_COUNT; ++k) c[static_cast<std::size_t>(k)] = W.fcnt[k];
			if(g_fcnt.size() <= static_cast<std::size_t>(idx)) g_fcnt.resize(static_cast<std::size_t>(idx) + 1);
			g_fcnt[static_cast<std::size_t>(idx)] = c;
		}
		int ev[E_COUNT];
		std::memcpy(ev, W.ev, sizeof ev);
		W.disarm();
		if(!done) {
			++R.ops_skipped;
			++G.skipped;
			return;
		}
		++R.ops_executed;
		++G.ops;
		++G.op_count[op.kind];
		if(fired) {
			++G.fired[op.fk];
			++G.fired_by_op[op.kind][op.fk];
			run_faulted = true;
			step_faulted_.back() = true;
			if(eff.is_ctor) probe(P_FAULT_IN_CTOR);
			if(op.fn > 0) probe(P_FAULT_FIRED_LATE);
		}
		if(eff.probe_id >= 0) probe(eff.probe_id);
		for(Chain const* c : {&op.ca, &op.cb})
			for(int q = 0; q < c->n; ++q) {
				int const sk = c->s[q].kind;
				if(sk == S_STRIDED && c->s[q].a > 1) probe(P_VIEW_STRIDED);
				if(sk == S_ROTATED || sk == S_UNROTATED || sk == S_TRANSPOSED || sk == S_REVERSED) probe(P_VIEW_ROTATED);
				if(sk == S_IDX || sk == S_DIAGONAL || sk == S_PARTITIONED || sk == S_CHUNKED || sk == S_FLATTED || sk == S_HALVED) probe(P_VIEW_D_CHANGED);
			}
		if(op.kind == O_VASSIGN_VIEW && (op.var == 2 || op.var == 4) && !threw && ET::tracked) probe(P_MOVED_ELEMENTS);
		if(!ET::tracked && !threw && (op.kind == O_CTOR_EXT || op.kind == O_REEXTENT || op.kind == O_REEXTENT_MOVE) && eff.elems > 0) probe(P_TRIVIAL_UNWRITTEN_CHECKED);
		if(op.fk == F_NONE && last_fired_kind_ == op.kind && last_fired_a_ == op.a) probe(P_RETRY_AFTER_FAULT);
		last_fired_kind_ = fired ? op.kind : -1;
		last_fired_a_    = op.a;
		if(op.kind == O_ASSIGN_COPY || op.kind == O_ASSIGN_MOVE || op.kind == O_ASSIGN_VIEW) {
			MArr const& b0 = M.at(op.da, op.a);
			(void)b0;
		}
		bool const fault_ctx = fired || involved_tainted;

		auto finish_violation = [&]() {
			Violation const& v = W.viol.front();
			R.violated    = true;
			R.inv         = v.inv;
			R.detail      = v.detail;
			R.variant     = eff.variant;
			R.step        = idx;
			R.op_kind     = op.kind;
			R.fault_kind  = fired ? op.fk : F_NONE;
			R.fault_fired = fired;
			bool ctx      = fault_ctx;
			if(v.inv == "I1-leaked-block" && leak_in_faulted_step_) ctx = true;
			R.property = attribute(v.inv, op.kind, ctx);
			for(std::size_t q = 1; q < W.viol.size(); ++q) {
				Violation const& x = W.viol[q];
				bool dup = x.inv == v.inv;
				for(auto const& y : R.extra) dup |= y.inv == x.inv;
				if(dup) continue;
				bool cx = fault_ctx;
				if(x.inv == "I1-leaked-block" && leak_in_faulted_step_) cx = true;
				R.extra.push_back({x.inv, x.detail, attribute(x.inv, op.kind, cx)});
			}
		};

		if(wrong_exc) fail("WRONG-EXCEPTION", "an exception that is neither the injected fault nor bad_alloc reached the caller: " + threw_what_);
		if(threw && !fired) fail("WRONG-EXCEPTION", "the operation threw although no fault was injected: " + threw_what_);
		// a breach recorded while the operation ran (lifetime, pointer, deallocate) does not end the step: the model transition and
		// the invariants are still evaluated so that every property whose statement is broken in this step gets its own signature

		// a stream fault that fired without an exception (e.g. a number cut short that still parses): no equality is demanded
		if(fired && !threw && (op.kind == O_LOAD || op.kind == O_SAVE)) threw = true;
		if(op.kind == O_SAVE && eff.file_id >= 0) {
			if(threw) M.files[eff.file_id].valid = false;
			else M.files[eff.file_id] = eff.file_next;
		}
		if(op.kind == O_LOAD && fired) probe(P_FAULT_DURING_LOAD);
		// ---- model transition
		if(!threw) {
			for(int k = 0; k < eff.nt; ++k) {
				if(eff.unspecified[k]) {
					M.at(eff.tD[k], eff.ti[k]).alive = true;
					if(eff.tD[k] == 0 && valid0(eff.ti[k], "moved-from array", false)) resync0(eff.ti[k]);
					with_dim(eff.tD[k], [&](auto Dc) {
						constexpr int DD = decltype(Dc)::value;
						if(valid_array<DD>(pool<DD>().at(eff.ti[k]), "moved-from array", false)) resync<DD>(eff.ti[k]);
					});
				} else {
					M.at(eff.tD[k], eff.ti[k]) = eff.next[k];
				}
			}
		} else {
			++G.threw_ok;
			for(int k = 0; k < eff.nt; ++k) {
				int const tD = eff.tD[k], ti = eff.ti[k];
				if(eff.is_ctor && k == 0) continue;  // failed constructor: the slot stays not alive
				if(!M.at(tD, ti).alive) continue;
				tainted[tD][ti] = true;
				if(tD == 0) {
					if(valid0(ti, "array<0>#" + std::to_string(ti) + " after the failed operation", false)) resync0(ti);
					continue;
				}
				with_dim(tD, [&](auto Dc) {
					constexpr int DD = decltype(Dc)::value;
					Arr<DD>&      a  = pool<DD>().at(ti);
					if(!valid_array<DD>(a, "array<" + std::to_string(DD) + ">#" + std::to_string(ti) + " after the failed operation", false)) return;
					if(eff.viewwrite[k]) {
						// old-or-new, element by element; extents, base and arena unchanged
						MArr const& old = M.at(DD, ti);
						if(!same_real_extents<DD>(a, old.n) && old.count() > 0) {
							fail("I4-extents", "a failed write through a view changed the extents of its root");
							return;
						}
						std::vector<i64> now;
						bool             ok = true;
						read_array<DD>(a, 1, now, ok);
						if(now.size() != old.v.size()) { fail("I4-extents", "a failed write through a view changed the size of its root"); return; }
						for(std::size_t j = 0; j < now.size(); ++j) {
							if(now[j] != old.v[j] && now[j] != eff.next[k].v[j] && !(eff.moves_elements && now[j] == MOVED_FROM && j < eff.touched[k].size() && eff.touched[k][j]) && !(op.kind == O_LOAD && j < eff.touched[k].size() && eff.touched[k][j])) {
								fail("I4-value", "after a failed write through a view element " + std::to_string(j) + " of the root is " + std::to_string(now[j]) + ", neither its old value " + std::to_string(old.v[j]) + " nor its new value " + std::to_string(eff.next[k].v[j]));
								return;
							}
						}
						M.at(DD, ti).v = now;
					} else {
						resync<DD>(ti);
					}
				});
			}
		}
		// (same: keep evaluating)

		// ---- postconditions P*
		// a load whose stream was cut may legitimately read other extents than were saved (a number cut short still parses:
		// "10" becomes "1") and resize: "needs no new storage" is only known for the stream as it was written
		bool const cut_load = op.kind == O_LOAD && fired && !eff.viewwrite[0];  // (a load into a view never resizes, cut or not)
		if(eff.expect_no_alloc && !cut_load && (ev[E_ALLOC] != 0 || ev[E_DEALLOC] != 0)) fail("P-allocated", eff.variant + " performed " + std::to_string(ev[E_ALLOC]) + " allocation(s) and " + std::to_string(ev[E_DEALLOC]) + " deallocation(s); it needs no new storage");
		// the global heap seam (main.cpp): an operation that needs no new storage has no business in the global operator new either
		// (a buffer in a std::vector, a temporary over std::allocator); only for element types that own no heap state themselves and
		// for backends without archives or MPI, whose libraries allocate on their own account
		if constexpr((ET::tracked || ET::trivial || std::is_same_v<E, Semi>) && !Cfg::serialization && !Cfg::mpi) {
			if(eff.expect_no_alloc && !W.heap_route && W.heap_allocs_in_op != 0) fail("P-allocated", eff.variant + " called the global operator new " + std::to_string(W.heap_allocs_in_op) + " time(s); it needs no new storage");
		}
		if(eff.expect_no_elem_events && !threw) {
			int const n = ev[E_DCTOR] + ev[E_CCTOR] + ev[E_MCTOR] + ev[E_CASSIGN] + ev[E_MASSIGN] + ev[E_CONV] + ev[E_DTOR];
			if(n != 0) fail("P-element-events", eff.variant + " caused " + std::to_string(n) + " element construction/assignment/destruction event(s); it must not touch elements");
		}
		if(eff.expect_no_elem_copies && !threw) {
			int const n = ev[E_DCTOR] + ev[E_CCTOR] + ev[E_CASSIGN] + ev[E_CONV];
			if(n != 0) fail("P-element-events", eff.variant + " copied or default-constructed " + std::to_string(n) + " element(s); a move transfers the value without copying elements");
		}
		if(eff.expect_base_unchanged && !threw && eff.nt > 0) {
			void const* after = nullptr;
			with_dim(eff.tD[0], [&](auto Dc) { after = raw_of(pool<decltype(Dc)::value>().at(eff.ti[0]).data_elements()); });
			if constexpr(HAS_D0) { if(eff.tD[0] == 0) after = raw_of(pool0_.at(eff.ti[0]).base()); }
			if(after != base_before) fail("P-base-changed", eff.variant + " changed data_elements() of its target");
		}
		check_invariants();
		situation(op, threw);
		if(W.violated()) { finish_violation(); return; }

		// ---- log
		W.log_full(static_cast<u64>(op.kind) * 131 + static_cast<u64>(threw ? 7 : 3));
		for(int k = 0; k < E_COUNT; ++k) W.log_full(static_cast<u64>(ev[k]));
		W.log_obs(threw ? 0xF00Du : 0x600Du);
		W.log_obs(digest());
	}

	int last_fired_kind_ = -1, last_fired_a_ = -1;
	std::vector<char> file_bytes_[NFILE];
	int               chunk_r_ = 0;
	bool mpi_op(Op const& op);    // defined in mpi_ops.hpp (MPI builds only)
	template<class V, class F> void mpi_with_message(V&& view, int var, F&& body);
	bool ser_save(Op const& op);  // defined in ser_ops.hpp (serialization builds only)
	bool ser_load(Op const& op);
	std::string threw_what_;
	bool run_real_guarded(Op const& op, bool& threw, bool& wrong) {
		bool done = false;
		for(auto& c : W.fcnt) c = 0;
		for(auto& c : W.ev) c = 0;
		W.heap_allocs_in_op = 0;
		try {
			done = run_real(op);
		} catch(injected_fault const&) {
			threw = true;
			done  = true;
		} catch(std::bad_alloc const&) {
			threw = true;
			done  = true;
		} catch(std::exception const& ex) {
			threw = true;
			done  = true;
			// an archive exception is the legitimate outcome of an injected stream fault
			wrong = !(W.fired && (W.armed_kind == F_EOF || W.armed_kind == F_WERR));
			threw_what_ = ex.what();
		} catch(...) {
			threw = wrong = true;
			done  = true;
			threw_what_ = "unknown exception type";
		}
		W.end_op();
		return done;
	}

	// ---------------------------------------------------------------- whole run
	RunResult run(Plan const& plan) {
		W.reset(plan.knobs.reuse);
		M.clear();
		chunk_r_ = plan.knobs.chunk_r;
		for(auto& fb : file_bytes_) fb.clear();
		std::memset(tainted, 0, sizeof tainted);
		run_faulted    = false;
		harness_elems_ = 0;
		R              = RunResult{};
		step_faulted_.clear();
		int idx = 0;
		bool cut = false;
		for(Op const& op : plan.ops) {
			step(idx++, op);
			if(R.violated) break;
			// the input class of the open known finding (reextent of a re-indexed array, known_findings.json): whatever the
			// library did there, nothing downstream of it is evaluated - otherwise the same defect could surface under the
			// signature of a later, innocent operation (it did, under a behaviour-preserving refactoring of reextent)
			if((op.kind == O_REEXTENT || op.kind == O_REEXTENT_FILL) && op.var == 1) {
				cut = true;
				break;
			}
		}
		if(!R.violated && !cut) {
			// end of run: every array dies, nothing may be outstanding
			Op fin;
			fin.kind = O_DESTROY;
			for(int D = DMIN; D <= DMAX && !R.violated; ++D)
				for(int i = 0; i < NSLOT && !R.violated; ++i)
					if(M.at(D, i).alive) {
						fin.da = D;
						fin.a  = i;
						step(idx++, fin);
					}
		}
		R.hash_full = W.hash_full;
		R.hash_obs  = W.hash_obs;
		G.ticks += W.tick;
		++G.runs;
		if(R.violated || cut) abandon();
		return R;
	}
	void abandon() {  // after a violation the slots are dropped without running destructors
		M.clear();
	}
};

}  // namespace sim
