// sim::allocator<T,Cfg> — stateful allocator over the simulated arenas; sim::memory_resource for pmr;
// sim::hallocator — malloc-backed allocator for harness-owned containers (invisible to the ledger).
#pragma once
#include <cstdlib>
#include <memory>
#include <memory_resource>
#include <type_traits>

#include "ptr.hpp"
#include "world.hpp"

namespace sim {

template<bool Fancy, bool POCCA, bool POCMA, bool POCS, bool SOCCC_DEFAULT = false, bool DefaultInit = false, bool AlwaysEqual = false>
struct alloc_cfg {
	static constexpr bool always_equal = AlwaysEqual;  // is_always_equal: every instance lives on arena 0 and compares equal
	static constexpr bool fancy = Fancy, pocca = POCCA, pocma = POCMA, pocs = POCS, soccc_default = SOCCC_DEFAULT;
	static constexpr bool default_init = DefaultInit;  // the allocator has its own construct(): zero-argument construction default-initialises
	template<class T> using ptr_t = std::conditional_t<Fancy, sim::ptr<T>, T*>;
};
using RawCfg   = alloc_cfg<false, false, false, false>;
using FancyCfg = alloc_cfg<true, false, false, false>;

template<class T, class Cfg = RawCfg>
struct allocator {
	using value_type         = T;
	using pointer            = typename Cfg::template ptr_t<T>;
	using const_pointer      = typename Cfg::template ptr_t<T const>;
	using void_pointer       = typename Cfg::template ptr_t<void>;
	using const_void_pointer = typename Cfg::template ptr_t<void const>;
	using size_type          = std::size_t;
	using difference_type    = std::ptrdiff_t;

	using propagate_on_container_copy_assignment = std::bool_constant<Cfg::pocca>;
	using propagate_on_container_move_assignment = std::bool_constant<Cfg::pocma>;
	using propagate_on_container_swap            = std::bool_constant<Cfg::pocs>;
	using is_always_equal                        = std::bool_constant<Cfg::always_equal>;

	template<class U> struct rebind {
		using other = allocator<U, Cfg>;
	};

	int arena = 0;

	allocator() = default;
	explicit allocator(int a) : arena{Cfg::always_equal ? 0 : a} {}
	template<class U> allocator(allocator<U, Cfg> const& o) : arena{o.arena} {}  // NOLINT

	auto allocate(size_type n) -> pointer {
		void* p = W.allocate(arena, n, sizeof(T));
		return make_ptr<pointer>::make(static_cast<T*>(p), W.find_block(p));
	}
	auto allocate(size_type n, const_void_pointer /*hint*/) -> pointer { return allocate(n); }
	void deallocate(pointer p, size_type n) { W.deallocate(arena, raw_of(p), n, sizeof(T)); }

	auto select_on_container_copy_construction() const -> allocator { return Cfg::soccc_default ? allocator{0} : *this; }

	// the usual "default-init allocator" adaptor: construct(p) default-initialises instead of value-initialising
	template<class U, class C = Cfg, std::enable_if_t<C::default_init, int> = 0>
	void construct(U* p) { ::new(static_cast<void*>(p)) U; }
	template<class U, class A0, class... As, class C = Cfg, std::enable_if_t<C::default_init, int> = 0>
	void construct(U* p, A0&& a0, As&&... as) { ::new(static_cast<void*>(p)) U(std::forward<A0>(a0), std::forward<As>(as)...); }

	friend bool operator==(allocator const& a, allocator const& b) { return a.arena == b.arena; }
	friend bool operator!=(allocator const& a, allocator const& b) { return a.arena != b.arena; }
};

template<class T> struct allocator_tag {
	using type = allocator<T, FancyCfg>;
};

// ---- pmr resource over the arenas
struct memory_resource final : std::pmr::memory_resource {
	int arena;
	explicit memory_resource(int a) : arena{a} {}

 private:
	void* do_allocate(std::size_t bytes, std::size_t /*align*/) override { return W.allocate(arena, bytes, 1); }
	void  do_deallocate(void* p, std::size_t bytes, std::size_t /*align*/) override { W.deallocate(arena, p, bytes, 1); }
	bool  do_is_equal(std::pmr::memory_resource const& o) const noexcept override { return this == &o; }
};

// ---- harness allocator: plain malloc, never faulted, never in the ledger
template<class T> struct hallocator {
	using value_type = T;
	hallocator()     = default;
	template<class U> hallocator(hallocator<U> const&) {}  // NOLINT
	auto allocate(std::size_t n) -> T* { return static_cast<T*>(std::malloc(n * sizeof(T) + 1)); }
	void deallocate(T* p, std::size_t /*n*/) { std::free(p); }
	friend bool operator==(hallocator const&, hallocator const&) { return true; }
	friend bool operator!=(hallocator const&, hallocator const&) { return false; }
};

// ---- like hallocator, but the memory comes zeroed: storage of a nested array element (NestElem) whose trivially
// constructible ints a cut load leaves unwritten must not carry process history into the logs (determinism)
template<class T> struct zallocator {
	using value_type = T;
	zallocator()     = default;
	template<class U> zallocator(zallocator<U> const&) {}  // NOLINT
	auto allocate(std::size_t n) -> T* { return static_cast<T*>(std::calloc(n * sizeof(T) + 1, 1)); }
	void deallocate(T* p, std::size_t /*n*/) { std::free(p); }
	friend bool operator==(zallocator const&, zallocator const&) { return true; }
	friend bool operator!=(zallocator const&, zallocator const&) { return false; }
};

}  // namespace sim
