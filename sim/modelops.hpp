// Model-side semantics of every operation: precondition ("in domain, given the live state") and effect.
// Used by the generator (to emit in-domain plans) and by the executor (as the oracle).
#pragma once
#include <string>

#include "model.hpp"

namespace sim {

struct ModelTraits {
	bool trivial       = false;  // element type is trivially default constructible (sizing ctors do not write)
	bool pocca         = false, pocma = false, pocs = false, soccc_default = false;
	bool fancy         = false;
	int  dmin = 1, dmax = 3;
	bool static_arrays = false;  // slots are static_array (no resizing assignment)
	bool throwing_move = false;  // element moves can throw (TrackedNM)
	bool serialization = false;  // SAVE/LOAD operations are available in this build
	bool tracked       = true;   // element type reports its moved-from state (Tracked*)
	bool mpi           = false;  // MSG_PACK / MSG_XFER operations are available in this build
	bool assign_throws   = false;  // trivial element type whose copy assignment can fail (sim::TrivA)
	bool tracked_is_triv = false;  // the element type is sim::Triv (a struct holding exactly one i64)
	bool always_equal  = false;  // allocator is_always_equal: one arena only
	bool ctor_default_inits = false;  // the allocator's construct(p) default-initialises: array(extents) leaves scalar members unwritten
};

struct Effect {
	int  nt = 0;  // affected slots
	int  tD[2]{}, ti[2]{};
	MArr next[2];
	bool viewwrite[2]{};    // on throw: every element holds old or new value; extents, base, arena unchanged
	bool unspecified[2]{};  // valid but unspecified even on success (moved-from under unequal allocators)
	bool expect_no_alloc       = false;  // zero allocate/deallocate events
	bool expect_no_elem_events = false;  // zero element events of any kind
	bool expect_no_elem_copies = false;  // zero element copy/default constructions and copy assignments (moves are not copies)
	bool expect_base_unchanged = false;  // data_elements() of target 0 unchanged
	bool is_ctor = false, is_dtor = false;
	bool moves_elements = false;  // elements are moved: after a failure a written element may also be left moved-from
	std::vector<char> touched[2];  // per target: which root offsets the operation may write or move from
	bool reads_only = false;
	std::string variant;    // op-variant for signatures (Appendix A of DESIGN.md)
	long elems = 0;         // elements involved (guides fault placement)
	int  probe_id = -1;
	int  file_id = -1;       // SAVE: file written (file_next) / LOAD: file read
	MFile file_next;
};

inline void set_dims(MArr& a, int D, int const* n) {
	a.D = D;
	for(int i = 0; i < MAXD; ++i) a.n[i] = i < D ? n[i] : 0;
}
// a shape such as (0,4,2): empty, and the library reports it as requested (a zero in a later position collapses all sizes)
inline bool regular_empty(MArr const& a) {
	if(a.D < 1 || a.n[0] != 0) return false;
	for(int k = 1; k < a.D; ++k)
		if(a.n[k] < 1) return false;
	return true;
}
inline MArr make_empty(int D, int arena) {
	MArr a;
	a.alive = true;
	a.D     = D;
	a.arena = arena;
	return a;
}
inline std::vector<i64> gather(MArr const& root, MView const& v) {
	std::vector<i64> r(v.off.size());
	for(std::size_t i = 0; i < v.off.size(); ++i) r[i] = root.v[static_cast<std::size_t>(v.off[i])];
	return r;
}
inline bool slot_ok(int D, int i, ModelTraits const& T) { return D >= T.dmin && D <= T.dmax && i >= 0 && i < NSLOT; }

// view of (D, slot, chain) in the model; false if not in domain
inline bool model_view(Model const& M, ModelTraits const& T, int D, int slot, Chain const& c, MView& out) {
	if(!slot_ok(D, slot, T)) return false;
	MArr const& r = M.at(D, slot);
	if(!r.alive) return false;
	out = whole(r);
	if(c.n > 0 && r.count() == 0) return false;
	return apply_chain(out, c);
}

inline bool binary_view_dims_ok(MView const& a, MView const& b) {
	if(!a.same_extents(b)) return false;
	if(a.count() > 0) return true;
	// empty operands: only the plainly regular case (leading extent zero, all others positive)
	if(a.n[0] != 0) return false;
	for(int k = 1; k < a.D; ++k)
		if(a.n[k] < 1) return false;
	return true;
}

// shapes available as nested initializer lists in the harness (static shapes only)
inline bool il_shape_ok(int D, int const* x) {
	if(D == 1) return x[0] >= 1 && x[0] <= 4;
	if(D == 2) return x[0] >= 1 && x[0] <= 3 && x[1] >= 1 && x[1] <= 3;
	if(D == 3) return (x[0] == 2 && x[1] == 2 && x[2] == 2) || (x[0] == 1 && x[1] == 2 && x[2] == 3) || (x[0] == 2 && x[1] == 1 && x[2] == 2);
	return false;
}

inline char const* rel_name(MArr const& a, long cnt, bool same_ext) {
	if(!a.alive) return "new";
	if(same_ext && a.count() > 0) return "same-extents";
	if(a.count() == 0 && cnt == 0) return "empty-to-empty";
	if(a.count() == 0) return "from-empty";
	if(cnt == 0) return "to-empty";
	if(a.count() == cnt) return "same-count";
	return "diff-extents";
}

inline bool dims_equal(MArr const& a, int D, int const* n) {
	if(a.D != D) return false;
	for(int i = 0; i < D; ++i)
		if(a.n[i] != n[i]) return false;
	return true;
}

// The single place that defines what every operation means. Returns false when the op is not in
// domain for the current model state (then the executor records it as skipped).
inline bool plan_effect(Model const& M, ModelTraits const& T, Op const& op, Effect& e) {
	e          = Effect{};
	auto tgt = [&](int k, int D, int i) -> MArr& {
		e.tD[k]   = D;
		e.ti[k]   = i;
		e.next[k] = M.at(D, i);
		if(e.next[k].moved_from && e.probe_id < 0 && k == 0) e.probe_id = P_ASSIGN_TO_MOVED_FROM;
		e.next[k].moved_from = false;
		e.next[k].exact_empty = false;
		if(e.nt < k + 1) e.nt = k + 1;
		return e.next[k];
	};
	i64 const fresh_or_zero = T.trivial ? static_cast<i64>(0xA5A5A5A5A5A5A5A5ull) : 0;
	int const D             = op.da;
	e.variant               = op_name(op.kind);
	if(T.always_equal && op.ar != 0) return false;
	if(D == 0) {  // zero-dimensional arrays: one element, no extents, no views; a small operation set
		if(T.dmin != 0) return false;
		switch(op.kind) {
		case O_CTOR_DEFAULT: case O_CTOR_EXT: case O_CTOR_EXT_ELEM: case O_CTOR_COPY: case O_CTOR_MOVE: case O_DESTROY:
		case O_ASSIGN_COPY: case O_ASSIGN_MOVE: case O_ASSIGN_SELF: case O_ELEM_WRITE: case O_READ: break;
		case O_SAVE: if(!T.serialization || op.var != 0) return false; break;  // the 0-D array itself (it has no views)
		case O_LOAD: if(!T.serialization) return false; break;
		default: return false;
		}
		if(op.ca.n || op.cb.n) return false;
		if(op.kind == O_ASSIGN_SELF && op.var != 0) return false;
	}
	auto var                = [&](char const* q) { e.variant += std::string("/") + q; };

	switch(op.kind) {
	// ------------------------------------------------------------ construction
	case O_CTOR_DEFAULT: case O_CTOR_ALLOC: case O_CTOR_EXT: case O_CTOR_EXT_ELEM: case O_CTOR_COPY: case O_CTOR_COPY_ALLOC:
	case O_CTOR_MOVE: case O_CTOR_MOVE_ALLOC: case O_CTOR_VIEW: case O_CTOR_RANGE: case O_CTOR_IL: case O_CTOR_CONV: case O_DECAY: {
		if(!slot_ok(D, op.a, T) || M.at(D, op.a).alive) return false;
		if(op.ar < 0 || op.ar >= 4) return false;
		MArr& a   = tgt(0, D, op.a);
		a         = make_empty(D, 0);
		e.is_ctor = true;
		switch(op.kind) {
		case O_CTOR_DEFAULT:
			if(D == 0) a.v.assign(1, fresh_or_zero);  // a 0-D array always holds one element
			break;
		case O_CTOR_ALLOC: a.arena = op.ar; break;
		case O_CTOR_EXT: case O_CTOR_EXT_ELEM: {
			if(op.nx != D) return false;
			for(int i = 0; i < D; ++i)
				if(op.x[i] < 0 || op.x[i] > 6) return false;
			set_dims(a, D, op.x);
			a.v.assign(static_cast<std::size_t>(a.count()), op.kind == O_CTOR_EXT ? (T.ctor_default_inits ? static_cast<i64>(0xA5A5A5A5A5A5A5A5ull) : fresh_or_zero) : op.v);
			if(op.var & 1) {
				a.arena = op.ar;
				var("alloc");
			}
			e.elems = a.count();
			a.exact_empty = regular_empty(a);
			break;
		}
		case O_CTOR_COPY: case O_CTOR_COPY_ALLOC: {
			if(!slot_ok(D, op.b, T) || op.b == op.a || !M.at(D, op.b).alive) return false;
			MArr const& b = M.at(D, op.b);
			set_dims(a, D, b.n);
			a.v     = b.v;
			a.arena = op.kind == O_CTOR_COPY ? (T.soccc_default ? 0 : b.arena) : op.ar;
			if(op.kind == O_CTOR_COPY && op.var == 1) {  // from a temporary array_ref over b's storage: no allocator to take over
				if(D == 0 || b.count() == 0) return false;
				a.arena = 0;
				var("from-array_ref");
			} else if(op.var != 0 && op.kind == O_CTOR_COPY) return false;
			a.exact_empty = b.exact_empty;  // "extents ... equal the source's", also for an empty source
			e.elems = b.count();
			if(a.arena != b.arena) var("other-arena");
			break;
		}
		case O_CTOR_MOVE: case O_CTOR_MOVE_ALLOC: {
			if(op.kind == O_CTOR_MOVE && op.var == 1) {  // static_array(array&&): from a resizable array on arena op.ar holding op.v, op.v+1, ...
				if(!T.static_arrays || op.nx != D || D == 0) return false;
				for(int i = 0; i < D; ++i)
					if(op.x[i] < 1 || op.x[i] > 4) return false;
				set_dims(a, D, op.x);
				a.v.resize(static_cast<std::size_t>(a.count()));
				for(std::size_t i = 0; i < a.v.size(); ++i) a.v[i] = op.v + static_cast<i64>(i);
				a.arena = 0;  // the constructor has no allocator argument: a default-constructed allocator
				e.elems = a.count();
				var("from-resizable");
				if(op.ar != 0) var("other-arena");
				else e.expect_no_alloc = e.expect_no_elem_copies = true;  // equal allocators: the storage is adopted
				break;
			}
			if(op.kind == O_CTOR_MOVE && op.var != 0) return false;  // (the allocator-extended form carries var = 1 from its generator family)
			if(T.static_arrays && op.kind != O_CTOR_MOVE) return false;
			if(!slot_ok(D, op.b, T) || op.b == op.a || !M.at(D, op.b).alive) return false;
			MArr const& b = M.at(D, op.b);
			set_dims(a, D, b.n);
			a.v     = b.v;
			a.arena = op.kind == O_CTOR_MOVE ? b.arena : op.ar;
			if(a.arena == b.arena) a.exact_empty = b.exact_empty;  // the layout travels with the storage
			if(T.static_arrays) {  // a static_array cannot give its storage away: new storage, elements moved one by one
				MArr& bs = tgt(1, D, op.b);
				if(!T.trivial) bs.v.assign(bs.v.size(), -7777);
				e.unspecified[1] = true;
				e.elems = b.count();
				var("static");
				break;
			}
			if(D == 0) {  // a 0-D array has no empty state: the element is moved, the source keeps one (moved-from) element
				MArr& bz = tgt(1, D, op.b);
				if(!T.trivial) bz.v.assign(1, -7777);
				e.unspecified[1] = true;  // the element is moved from: valid but unspecified
				e.elems = 1;
				break;
			}
			MArr& bn = tgt(1, D, op.b);
			int   z[MAXD]{};
			set_dims(bn, D, z);
			bn.v.clear();
			bn.moved_from = true;
			e.elems = b.count();
			if(a.arena == b.arena) {
				e.expect_no_alloc = e.expect_no_elem_copies = true;  // "transfers the value without copying elements", "do not allocate"
			} else {
				var("other-arena");  // the elements are moved into storage of the new array's allocator; the source is emptied all the same
			}
			break;
		}
		case O_CTOR_VIEW: case O_CTOR_RANGE: case O_DECAY: {
			MView v;
			if(!model_view(M, T, op.db, op.b, op.cb, v) || v.D != D) return false;
			if(op.db == D && op.b == op.a) return false;
			bool empty_range = false;
			if(op.kind == O_CTOR_RANGE && (v.n[0] < 1 || v.count() == 0)) {
				// an empty iterator range (first == last): a whole empty array, or a view sliced to nothing; the result is an empty
				// array (whose reported extents are left open, as for a default-constructed one) and nothing may be dereferenced
				if(v.n[0] != 0 || T.static_arrays) return false;
				for(int k = 1; k < v.D; ++k)
					if(v.n[k] < 1 && M.at(op.db, op.b).count() != 0) return false;
				empty_range = true;
				var("empty-range");
			}
			if(!empty_range) set_dims(a, D, v.n);
			a.v = gather(M.at(op.db, op.b), v);
			if(op.kind == O_DECAY) {
				if(op.var < 0 || op.var > 2) return false;
				if(op.var == 2) {
					if(op.cb.n != 0 || op.db != D || T.static_arrays) return false;
					a.arena = T.soccc_default ? 0 : M.at(op.db, op.b).arena;
					var("plus-array");
				} else var(op.var == 0 ? "decay" : "plus-view");
			} else {
				if(op.var & 1) {
					a.arena = op.ar;
					var("alloc");
				}
				if(op.kind == O_CTOR_VIEW && (op.var & 2)) var("moved-view");
			}
			if(v.count() == 0) var("empty");
			e.elems = v.count();
			break;
		}
		case O_CTOR_IL: {
			if(op.nx != D || !il_shape_ok(D, op.x)) return false;
			set_dims(a, D, op.x);
			a.v.resize(static_cast<std::size_t>(a.count()));
			for(std::size_t i = 0; i < a.v.size(); ++i) a.v[i] = op.v + static_cast<i64>(i);
			if(op.var & 1) {
				a.arena = op.ar;
				var("alloc");
			}
			e.elems = a.count();
			break;
		}
		case O_CTOR_CONV: {
			if(op.nx != D) return false;
			for(int i = 0; i < D; ++i)
				if(op.x[i] < 1 || op.x[i] > 4) return false;
			int const form = (op.var >> 1) & 7;  // 0 const array, 1 whole view, 2 transposed view, 3 non-const lvalue array, 4 rvalue array
			if(form > 4 || (form == 2 && D < 2)) return false;
			MArr src = make_empty(D, 0);
			set_dims(src, D, op.x);
			src.v.resize(static_cast<std::size_t>(src.count()));
			for(std::size_t i = 0; i < src.v.size(); ++i) src.v[i] = op.v + static_cast<i64>(i);
			MView v = whole(src);
			if(form == 2) {
				Step s;
				s.kind = S_TRANSPOSED;
				apply_step(v, s);
				var("transposed-view");
			} else if(form == 1) var("view");
			else if(form == 3) var("lvalue-array");
			else if(form == 4) var("rvalue-array");
			if(form >= 3 && (op.var & 1)) return false;  // no allocator-extended form for these
			set_dims(a, D, v.n);
			a.v = gather(src, v);
			if(op.var & 1) {
				a.arena = op.ar;
				var("alloc");
			}
			e.elems = a.count();
			break;
		}
		default: return false;
		}
		return true;
	}
	case O_DESTROY: {
		if(!slot_ok(D, op.a, T) || !M.at(D, op.a).alive) return false;
		MArr& a   = tgt(0, D, op.a);
		e.elems   = a.count();
		a         = MArr{};
		e.is_dtor = true;
		return true;
	}
	// ------------------------------------------------------------ assignment to an owning array
	case O_ASSIGN_COPY: case O_ASSIGN_MOVE: case O_SWAP: {
		if(!slot_ok(D, op.a, T) || !slot_ok(D, op.b, T) || op.a == op.b) return false;
		MArr const& a0 = M.at(D, op.a);
		MArr const& b0 = M.at(D, op.b);
		if(!a0.alive || !b0.alive) return false;
		bool const same = a0.same_extents(b0);
		if(T.static_arrays && !same) return false;
		MArr& a = tgt(0, D, op.a);
		var(rel_name(a0, b0.count(), same));
		if(a0.arena != b0.arena) var("other-arena");
		e.elems = b0.count();
		if(op.kind == O_ASSIGN_COPY) {
			set_dims(a, D, b0.n);
			a.v = b0.v;
			a.exact_empty = b0.exact_empty;
			if(T.pocca) a.arena = b0.arena;
			if(same && a0.count() > 0 && !(T.pocca && a0.arena != b0.arena)) e.expect_no_alloc = e.expect_base_unchanged = true;
			if(op.var == 1) {  // the source is re-indexed to base 1 for the call: other extensions even when the sizes agree, so nothing is known about storage reuse
				if(T.static_arrays || D == 0 || b0.count() == 0) return false;
				var("reindexed-source");
				e.expect_no_alloc = e.expect_base_unchanged = false;
			} else if(op.var != 0) return false;
			e.probe_id = (a0.arena != b0.arena && same && a0.count() > 0) ? P_COPY_OTHER_ARENA : same ? P_ASSIGN_SAME_EXT : a0.count() == 0 ? P_ASSIGN_FROM_EMPTY : b0.count() == 0 ? P_ASSIGN_TO_EMPTY : P_ASSIGN_DIFF_EXT;
		} else if(op.kind == O_ASSIGN_MOVE) {
			if(T.static_arrays || D == 0) {  // static_array (and 0-D) move assignment: element-wise move, extents equal
				a.v      = b0.v;
				MArr& b  = tgt(1, D, op.b);
				if(!T.trivial) b.v.assign(b.v.size(), -7777);
				e.unspecified[1]  = true;  // elements are moved from one by one: valid but unspecified
				e.expect_no_alloc = true;
				return true;
			}
			set_dims(a, D, b0.n);
			a.v = b0.v;
			if(T.pocma) a.arena = b0.arena;
			if(T.pocma || a0.arena == b0.arena) a.exact_empty = b0.exact_empty;  // the layout travels with the storage
			MArr& b = tgt(1, D, op.b);
			int   z[MAXD]{};
			set_dims(b, D, z);
			b.v.clear();
			b.moved_from = true;
			if(T.pocma || a0.arena == b0.arena) {
				e.expect_no_elem_copies = true;  // the old elements of the target are destroyed and its block released; nothing is copied
			} else {
				e.probe_id       = P_MOVE_ASSIGN_UNEQUAL_ALLOC;  // elements moved one by one into own storage; "leaves the source empty yet valid" all the same
			}
		} else {
			if(T.static_arrays && !same) return false;
			if(!T.pocs && a0.arena != b0.arena) return false;  // undefined by the container requirements
			if(op.var < 0 || op.var > 1) return false;
			MArr& b = tgt(1, D, op.b);
			std::swap(a, b);
			a.exact_empty = b0.exact_empty;
			b.exact_empty = a0.exact_empty;
			if(!T.pocs) std::swap(a.arena, b.arena);  // allocators stay
			e.expect_no_alloc = true;  // "swap ... of resizable arrays do not allocate"; how the values are exchanged is not prescribed
			if(a0.arena != b0.arena) e.probe_id = P_SWAP_OTHER_ARENA;
			var(op.var ? "adl" : "member");
		}
		return true;
	}
	case O_ASSIGN_SELF: {
		if(!slot_ok(D, op.a, T) || !M.at(D, op.a).alive) return false;
		if(op.var < 0 || op.var > 1) return false;
		if(T.static_arrays && op.var == 1) return false;
		MArr& a = tgt(0, D, op.a);
		a.exact_empty = M.at(D, op.a).exact_empty;
		e.elems = a.count();
		e.expect_no_alloc = e.expect_base_unchanged = true;
		e.expect_no_elem_events = true;
		var(op.var ? "move" : "copy");
		e.probe_id = P_SELF_ASSIGN;
		return true;
	}
	case O_ASSIGN_VIEW: case O_ASSIGN_ITER: case O_ASSIGN_RANGE: case O_FROM: {
		if(!slot_ok(D, op.a, T) || !M.at(D, op.a).alive) return false;
		MView v;
		if(!model_view(M, T, op.db, op.b, op.cb, v) || v.D != D) return false;
		bool const self_source = op.db == D && op.b == op.a;  // a view of the target itself
		if((op.kind == O_ASSIGN_ITER || op.kind == O_ASSIGN_RANGE) && (v.n[0] < 1 || v.count() == 0)) {
			// an empty iterator range is in domain only for an empty target (nothing to do, and nothing may be dereferenced)
			if(!(v.n[0] == 0 && M.at(D, op.a).count() == 0 && M.at(D, op.a).n[0] == 0 && !self_source)) return false;
			bool regular = true;
			for(int k = 1; k < v.D; ++k) regular &= v.n[k] >= 1;
			if(!regular && M.at(op.db, op.b).count() != 0) return false;
			var("empty-range");
		}
		if(T.static_arrays && op.kind != O_ASSIGN_VIEW) return false;  // assign/from are members of the resizable array only
		if(op.var < 0 || op.var > 1) return false;
		MArr const& a0   = M.at(D, op.a);
		bool const  same = dims_equal(a0, D, v.n);
		if(T.static_arrays && !same) return false;
		if(self_source) {
			// element-wise assignment from an aliasing view is documented as unprotected; but whenever the library has to build
			// a new value first (the extents differ, and for the overloads with a reshape path also the element count), the
			// source may well be a view of the target itself
			bool const rebuilds = !same && ((op.kind == O_ASSIGN_VIEW && op.var == 0) || op.kind == O_ASSIGN_ITER || op.kind == O_ASSIGN_RANGE || v.count() != a0.count());
			if(!rebuilds || T.static_arrays || v.count() == 0) return false;
			var("self-view");
		}
		if(v.count() == 0 && !same) {
			// assigning an empty view: extents reported by empty views are not regular; only from a regular empty
			for(int k = 1; k < v.D; ++k)
				if(v.n[k] < 1) return false;
		}
		MArr& a = tgt(0, D, op.a);
		var(rel_name(a0, v.count(), same));
		if(op.var) var("moved-view");
		bool const empty_range = (op.kind == O_ASSIGN_ITER || op.kind == O_ASSIGN_RANGE) && v.n[0] == 0;
		// an empty range carries no shape beyond "no rows": the (empty) target keeps the extents it reports
		if(!empty_range) set_dims(a, D, v.n);
		a.v     = gather(M.at(op.db, op.b), v);
		e.elems = v.count();
		if(same && a0.count() > 0) e.expect_no_alloc = e.expect_base_unchanged = true;
		return true;
	}
	case O_ASSIGN_CONV: {
		if(!slot_ok(D, op.a, T) || !M.at(D, op.a).alive || op.nx != D) return false;
		for(int i = 0; i < D; ++i)
			if(op.x[i] < 1 || op.x[i] > 4) return false;
		int const form = (op.var >> 1) & 3;
		if(form > 2 || (form == 2 && D < 2) || (op.var & 1)) return false;
		MArr src = make_empty(D, 0);
		set_dims(src, D, op.x);
		src.v.resize(static_cast<std::size_t>(src.count()));
		for(std::size_t i = 0; i < src.v.size(); ++i) src.v[i] = op.v + static_cast<i64>(i);
		MView v = whole(src);
		if(form == 2) {
			Step s;
			s.kind = S_TRANSPOSED;
			apply_step(v, s);
		}
		MArr const& a0   = M.at(D, op.a);
		bool const  same = dims_equal(a0, D, v.n);
		if(T.static_arrays && !same) return false;
		MArr& a = tgt(0, D, op.a);
		var(rel_name(a0, v.count(), same));
		var(form == 0 ? "array" : form == 1 ? "view" : "transposed-view");
		set_dims(a, D, v.n);
		a.v     = gather(src, v);
		e.elems = v.count();
		if(same && a0.count() > 0) e.expect_no_alloc = e.expect_base_unchanged = true;
		else if(a0.count() == v.count() && a0.count() > 0 && form == 0) {
			e.probe_id = P_ASSIGN_RESHAPE_PATH;  // reshape path: reached and value-checked; whether it reallocates is not stated by any property
		}
		return true;
	}
	case O_ASSIGN_IL: {
		if(T.static_arrays) return false;
		if(!slot_ok(D, op.a, T) || !M.at(D, op.a).alive || op.nx != D || !il_shape_ok(D, op.x)) return false;
		MArr const& a0   = M.at(D, op.a);
		bool const  same = dims_equal(a0, D, op.x);
		MArr&       a    = tgt(0, D, op.a);
		var(rel_name(a0, prod(op.x, D), same));
		if(!same && a0.count() > 0 && a0.n[0] == op.x[0]) var("same-outer-size");
		set_dims(a, D, op.x);
		a.v.resize(static_cast<std::size_t>(a.count()));
		for(std::size_t i = 0; i < a.v.size(); ++i) a.v[i] = op.v + static_cast<i64>(i);
		e.elems = a.count();
		if(same) e.expect_no_alloc = e.expect_base_unchanged = true;
		return true;
	}
	case O_ASSIGN_IL_EMPTY: case O_CLEAR: {
		if(T.static_arrays) return false;
		if(!slot_ok(D, op.a, T) || !M.at(D, op.a).alive) return false;
		MArr& a = tgt(0, D, op.a);
		e.elems = a.count();
		int z[MAXD]{};
		set_dims(a, D, z);
		a.v.clear();
		return true;
	}
	// ------------------------------------------------------------ resizing
	case O_REEXTENT: case O_REEXTENT_FILL: case O_REEXTENT_MOVE: {
		if(T.static_arrays) return false;
		if(!slot_ok(D, op.a, T) || !M.at(D, op.a).alive || op.nx != D) return false;
		for(int i = 0; i < D; ++i)
			if(op.x[i] < 0 || op.x[i] > 6) return false;
		MArr const& a0   = M.at(D, op.a);
		bool const  same = dims_equal(a0, D, op.x);
		MArr&       a    = tgt(0, D, op.a);
		e.elems          = std::max(a0.count(), prod(op.x, D));
		if(op.var < 0 || op.var > 1) return false;
		bool const reindexed = op.var == 1;  // the array is re-indexed to base 1 first: old extents [1, 1+n), new extents [0, x)
		if(reindexed && (op.kind == O_REEXTENT_MOVE || a0.count() == 0 || prod(op.x, D) == 0)) return false;
		if(same && a0.count() > 0 && !reindexed) {
			e.expect_no_alloc = e.expect_no_elem_events = e.expect_base_unchanged = true;
			var("noop");
			e.probe_id = P_REEXT_NOOP;
			return true;
		}
		long const newc = prod(op.x, D);
		bool grow = false, shrink = false;
		for(int i = 0; i < D; ++i) {
			grow |= op.x[i] > a0.n[i];
			shrink |= op.x[i] < a0.n[i];
		}
		if(a0.count() == 0) { var("from-empty"); e.probe_id = P_REEXT_FROM_EMPTY; }
		else if(newc == 0) { var("to-empty"); e.probe_id = P_REEXT_TO_EMPTY; }
		else if(grow && shrink) { var("mixed"); e.probe_id = P_REEXT_MIXED; }
		else if(grow) { var("grow"); e.probe_id = P_REEXT_GROW; }
		else { var("shrink"); e.probe_id = P_REEXT_SHRINK; }
		if(reindexed) { var("reindexed"); e.probe_id = -1; }
		i64 const fillv = op.kind == O_REEXTENT_FILL ? op.v : fresh_or_zero;
		set_dims(a, D, op.x);
		a.exact_empty = regular_empty(a);  // "after reextent(x) the array has extents x"
		a.v.assign(static_cast<std::size_t>(newc), fillv);
		if(op.kind != O_REEXTENT_MOVE && a0.count() > 0 && newc > 0) {
			int idx[MAXD]{};
			for(long i = 0; i < newc; ++i) {
				bool inside = true;
				long o      = 0;
				for(int k = 0; k < D; ++k) {
					int const old = idx[k] - (reindexed ? 1 : 0);  // position of index idx[k] in the old extent
					if(old < 0 || old >= a0.n[k]) inside = false;
					o = o * a0.n[k] + old;
				}
				if(inside) a.v[static_cast<std::size_t>(i)] = a0.v[static_cast<std::size_t>(o)];
				for(int k = D - 1; k >= 0; --k) {
					if(++idx[k] < op.x[k]) break;
					idx[k] = 0;
				}
			}
		}
		return true;
	}
	case O_RESHAPE: {
		if(T.static_arrays) return false;
		if(!slot_ok(D, op.a, T) || !M.at(D, op.a).alive || op.nx != D) return false;
		MArr const& a0 = M.at(D, op.a);
		if(a0.count() == 0 || prod(op.x, D) != a0.count()) return false;
		for(int i = 0; i < D; ++i)
			if(op.x[i] < 1) return false;
		MArr& a = tgt(0, D, op.a);
		set_dims(a, D, op.x);
		e.elems = a.count();
		e.expect_no_alloc = e.expect_no_elem_events = e.expect_base_unchanged = true;
		return true;
	}
	// ------------------------------------------------------------ writes through views
	case O_VASSIGN_VIEW: case O_VSWAP: case O_EASSIGN: {
		MView dv, sv;
		if(!model_view(M, T, op.da, op.a, op.ca, dv) || !model_view(M, T, op.db, op.b, op.cb, sv)) return false;
		bool const same_root = op.da == op.db && op.a == op.b;
		if(op.kind == O_EASSIGN) {
			if(dv.count() != sv.count() || dv.count() == 0) return false;
			if(op.var < 0 || op.var > 1) return false;
		} else {
			if(!binary_view_dims_ok(dv, sv)) return false;
			if(op.kind == O_VASSIGN_VIEW && (op.var < 0 || op.var > 6)) return false;
			if(op.kind == O_VASSIGN_VIEW && (op.var == 2 || op.var == 4 || op.var == 6) && !T.tracked && !T.trivial) return false;
			if(op.kind == O_VASSIGN_VIEW && op.var == 6 && (op.cb.n != 0 || same_root || T.static_arrays)) return false;  // source is a whole moved array: std::move(b)()  // moved-from value of such elements is unspecified
			if(op.kind == O_VSWAP && (op.var < 0 || op.var > 4)) return false;
		}
		bool const overlap = same_root && !disjoint(dv, sv);
		if(overlap && !(op.ov == 1 && op.var == 0 && op.kind != O_VSWAP)) return false;
		MArr const& ra = M.at(op.da, op.a);
		MArr const& rb = M.at(op.db, op.b);
		MArr& a        = tgt(0, op.da, op.a);
		e.viewwrite[0] = true;
		e.elems        = dv.count();
		e.expect_no_alloc = e.expect_base_unchanged = true;
		if(same_root) { var("same-root"); e.probe_id = P_VIEW_SAME_ROOT; }
		if(dv.count() == 0) var("empty");
		if(op.kind == O_VSWAP || (op.kind == O_VASSIGN_VIEW && (op.var == 2 || op.var == 4 || op.var == 6))) {
			e.moves_elements = true;
			e.touched[0].assign(ra.v.size(), 0);
			for(int q : dv.off) e.touched[0][static_cast<std::size_t>(q)] = 1;
			if(same_root) for(int q : sv.off) e.touched[0][static_cast<std::size_t>(q)] = 1;
			else {
				e.touched[1].assign(rb.v.size(), 0);
				for(int q : sv.off) e.touched[1][static_cast<std::size_t>(q)] = 1;
			}
		}
		if(op.kind == O_VSWAP) {
			MArr* b = same_root ? &a : &tgt(1, op.db, op.b);
			e.viewwrite[1] = true;
			for(std::size_t i = 0; i < dv.off.size(); ++i) {
				i64 const x = ra.v[static_cast<std::size_t>(dv.off[i])], y = rb.v[static_cast<std::size_t>(sv.off[i])];
				a.v[static_cast<std::size_t>(dv.off[i])]  = y;
				b->v[static_cast<std::size_t>(sv.off[i])] = x;
			}
			var(op.var == 0 ? "member" : op.var == 1 ? "adl" : op.var == 2 ? "adl-lvalues" : op.var == 3 ? "adl-rvalue-lvalue" : "adl-lvalue-rvalue");
			return true;
		}
		if(overlap) {  // element by element in canonical order, reading what has already been written (the documented element-wise copy)
			// no property specifies the result of assigning overlapping views: the model adopts whatever the library produced
			// (valid-but-unspecified), and only the raw-pointer and the fancy-pointer build are compared with each other (C11)
			var("overlap");
			e.unspecified[0] = true;
			e.viewwrite[0]   = false;
			e.expect_base_unchanged = false;
		} else
		for(std::size_t i = 0; i < dv.off.size(); ++i) a.v[static_cast<std::size_t>(dv.off[i])] = rb.v[static_cast<std::size_t>(sv.off[i])];
		if(op.kind == O_VASSIGN_VIEW) {
			static char const* vn[] = {"const-ref", "moved-view", "element-moved", "rvalue-dest", "rvalue-dest/element-moved", "rvalue-dest/moved-view", "moved-array"};
			var(vn[op.var]);
			if((op.var == 2 || op.var == 4 || op.var == 6) && !T.trivial) {
				MArr* b = same_root ? &a : &tgt(1, op.db, op.b);
				e.viewwrite[1] = true;
				for(std::size_t i = 0; i < sv.off.size(); ++i) b->v[static_cast<std::size_t>(sv.off[i])] = -7777;
			}
		} else {
			var(op.var ? "moved-range" : "const-range");
		}
		return true;
	}
	case O_VASSIGN_ARRAY: {
		MView dv;
		if(!model_view(M, T, op.da, op.a, op.ca, dv)) return false;
		if(!slot_ok(op.db, op.b, T) || !M.at(op.db, op.b).alive) return false;
		if(op.da == op.db && op.a == op.b) return false;
		MArr const& b = M.at(op.db, op.b);
		if(b.D != dv.D || b.count() == 0) return false;
		for(int k = 0; k < dv.D; ++k)
			if(b.n[k] != dv.n[k]) return false;
		MArr& a        = tgt(0, op.da, op.a);
		e.viewwrite[0] = true;
		e.elems        = dv.count();
		e.expect_no_alloc = e.expect_base_unchanged = true;
		for(std::size_t i = 0; i < dv.off.size(); ++i) a.v[static_cast<std::size_t>(dv.off[i])] = b.v[i];
		return true;
	}
	case O_VASSIGN_CONV: case O_VASSIGN_RANGE: case O_VASSIGN_IL: case O_VFILL: case O_EASSIGN_IL: {
		MView dv;
		if(!model_view(M, T, op.da, op.a, op.ca, dv) || dv.count() == 0) return false;
		if(op.kind == O_VASSIGN_CONV) {
			if(op.var < 0 || op.var > 1) return false;
			for(int k = 0; k < dv.D; ++k)
				if(dv.n[k] > 4) return false;
			var(op.var ? "view" : "array");
		}
		if(op.kind == O_VASSIGN_RANGE && dv.D > 3) return false;
		if(op.kind == O_VASSIGN_RANGE) {
			if(op.var < 0 || op.var > 1) return false;  // the two-iterator assign of 1-D views is hidden by subarray::assign(It)
			var(op.var == 0 ? "operator=" : "assign(first)");
		}
		if(op.kind == O_VASSIGN_IL && !il_shape_ok(dv.D, dv.n)) return false;
		if(op.kind == O_VFILL) {
			if(op.var < 0 || op.var > 8 || (op.var == 0 && dv.D != 1)) return false;
			static char const* const names[] = {"fill", "begin+n", "it+=n", "elements[n]", "end-k", "it-=k", "it=jt", "it[k]", "end[-k]"};
			var(names[op.var]);
		}
		if(op.kind == O_EASSIGN_IL && dv.count() > 6) return false;
		MArr& a        = tgt(0, op.da, op.a);
		e.viewwrite[0] = true;
		e.elems        = dv.count();
		e.expect_no_alloc = e.expect_base_unchanged = true;
		for(std::size_t i = 0; i < dv.off.size(); ++i) a.v[static_cast<std::size_t>(dv.off[i])] = op.kind == O_VFILL && op.var == 0 ? op.v : op.v + static_cast<i64>(i);
		return true;
	}
	case O_ELEM_WRITE: {
		if(!slot_ok(D, op.a, T) || !M.at(D, op.a).alive || op.nx != D) return false;
		MArr const& a0 = M.at(D, op.a);
		if(a0.v.empty()) return false;
		long        o  = 0;
		for(int k = 0; k < D; ++k) {
			if(op.x[k] < 0 || op.x[k] >= a0.n[k]) return false;
			o = o * a0.n[k] + op.x[k];
		}
		MArr& a        = tgt(0, D, op.a);
		e.viewwrite[0] = true;
		e.elems        = 1;
		e.expect_no_alloc = e.expect_base_unchanged = true;
		a.v[static_cast<std::size_t>(o)] = op.v;
		return true;
	}
	// ------------------------------------------------------------ reads
	case O_READ: {
		if(D == 0) {
			if(!slot_ok(0, op.a, T) || !M.at(0, op.a).alive) return false;
			e.reads_only = true;
			e.elems      = 1;
			e.expect_no_alloc = true;
			return true;
		}
		MView v;
		if(!model_view(M, T, op.da, op.a, op.ca, v)) return false;
		if(op.var < 0 || op.var > 5) return false;
		if(op.var == 5) {
			if(v.count() == 0) return false;
			var("arrow");
		} else if(op.var >= 3) {  // through reinterpret_array_cast<i64>() / <i64>(1): only for the trivial element type, which is one i64
			if(!T.trivial || !T.tracked_is_triv || v.count() == 0) return false;
			var(op.var == 3 ? "reinterpret" : "reinterpret-count");
		}
		e.reads_only = true;
		e.elems      = v.count();
		e.expect_no_alloc = true;
		return true;
	}
	case O_REF_ASSIGN: {  // array_ref over the storage of array a = array_ref over the storage of array b (flat copy)
		if(op.var == 4 || op.var == 5) {  // = an array_ref over elements of the convertible type (values op.v, op.v+1, ...), same extents
			if(!slot_ok(D, op.a, T) || D == 0) return false;
			MArr const& a0 = M.at(D, op.a);
			if(!a0.alive || a0.count() == 0) return false;
			MArr& a = tgt(0, D, op.a);
			for(std::size_t i = 0; i < a.v.size(); ++i) a.v[i] = op.v + static_cast<i64>(i);
			e.viewwrite[0] = true;
			e.elems        = a0.count();
			e.expect_no_alloc = e.expect_base_unchanged = true;
			var(op.var == 4 ? "rvalue-dest/converting" : "converting");
			return true;
		}
		if(!slot_ok(D, op.a, T) || !slot_ok(D, op.b, T) || op.a == op.b) return false;
		MArr const& a0 = M.at(D, op.a);
		MArr const& b0 = M.at(D, op.b);
		if(!a0.alive || !b0.alive || !a0.same_extents(b0) || a0.count() == 0) return false;
		if(op.var < 0 || op.var > 3) return false;
		MArr& a        = tgt(0, D, op.a);
		a.v            = b0.v;
		e.viewwrite[0] = true;
		e.elems        = a0.count();
		e.expect_no_alloc = e.expect_base_unchanged = true;
		static char const* vn[] = {"const-ref", "moved-ref", "rvalue-dest", "rvalue-dest/moved-ref"};
		var(vn[op.var]);
		return true;
	}
	case O_COMPARE: {
		if(op.var == 1) {  // two owning arrays of any extents (array_ref::operator==)
			if(op.ca.n || op.cb.n || op.da != op.db) return false;
			if(!slot_ok(D, op.a, T) || !slot_ok(D, op.b, T) || op.a == op.b) return false;
			if(!M.at(D, op.a).alive || !M.at(D, op.b).alive || M.at(D, op.a).count() == 0 || M.at(D, op.b).count() == 0) return false;
			e.reads_only = true;
			e.elems      = M.at(D, op.a).count();
			e.expect_no_alloc = true;
			var("arrays");
			return true;
		}
		MView x, y;
		if(!model_view(M, T, op.da, op.a, op.ca, x) || !model_view(M, T, op.db, op.b, op.cb, y)) return false;
		if(!x.same_extents(y)) return false;  // operands of different shape are C07 territory (and mis-compare at the pinned commit, DESIGN 9)
		if(x.count() == 0 || y.count() == 0) return false;
		e.reads_only = true;
		e.elems      = x.count();
		e.expect_no_alloc = true;
		return true;
	}
	// ------------------------------------------------------------ serialization
	case O_SAVE: {
		if(!T.serialization || op.file < 0 || op.file >= NFILE || op.arch < 0 || op.arch > 2) return false;
		MView v;
		if(D == 0) {  // a 0-D array: one element and no extents
			if(!slot_ok(0, op.a, T) || !M.at(0, op.a).alive) return false;
			v = whole(M.at(0, op.a));
		} else if(!model_view(M, T, op.da, op.a, op.ca, v)) return false;
		if(op.var < 0 || op.var > 3) return false;
		if(op.var == 3 && v.D < 1) return false;         // var 3 saves through a read-only view (its own serialize member; the 1-D specialisation compiles since fix 00b610f)
		if(op.var != 1 && op.var != 3 && op.ca.n != 0) return false;  // var 0 saves the owning array itself, var 2 the same array re-indexed to base 1
		if(v.count() == 0 && op.var == 3) return false;
		if(op.var == 2 && (v.count() == 0 || T.static_arrays)) return false;
		if(v.count() == 0 && op.var == 1) return false;
		if(v.count() == 0) {  // empty arrays: only regular empties (leading extent zero), see I4
			MArr const& a0 = M.at(op.da, op.a);
			if(a0.n[0] != 0) return false;
		}
		e.reads_only        = true;
		e.expect_no_alloc   = true;
		e.file_id           = op.file;
		e.file_next         = MFile{};
		e.file_next.valid    = true;
		e.file_next.arch     = op.arch;
		e.file_next.is_array = op.var != 1 && op.var != 3;
		e.file_next.base     = op.var == 2 ? 1 : 0;
		e.file_next.exact_empty = e.file_next.is_array && D != 0 && M.at(op.da, op.a).exact_empty;
		e.file_next.D        = v.D;
		for(int k = 0; k < v.D; ++k) e.file_next.n[k] = v.n[k];
		e.file_next.v = gather(M.at(op.da, op.a), v);
		e.elems       = v.count();
		static char const* an[] = {"text", "binary", "xml"};
		var(an[op.arch]);
		var(op.var == 1 ? "view" : op.var == 2 ? "reindexed-array" : op.var == 3 ? "const-view" : "array");
		return true;
	}
	case O_LOAD: {
		if(!T.serialization || op.file < 0 || op.file >= NFILE) return false;
		MFile const& f = M.files[op.file];
		if(!f.valid) return false;
		static char const* an[] = {"text", "binary", "xml"};
		var(an[f.arch]);
		e.file_id = op.file;
		if(f.is_array) {
			if(op.ca.n != 0 || op.da != f.D) return false;
			if(!slot_ok(op.da, op.a, T) || !M.at(op.da, op.a).alive) return false;
			MArr const& a0   = M.at(op.da, op.a);
			if(op.var < 0 || op.var > 1) return false;
			if(op.var == 1 && (T.static_arrays || a0.count() == 0 || op.da == 0)) return false;  // var 1: the loading array is re-indexed to base 1 first
			bool const  same = dims_equal(a0, f.D, f.n) && f.base == (op.var == 1 ? 1 : 0);
			if(T.static_arrays && !same) return false;
			MArr& a = tgt(0, op.da, op.a);
			var(rel_name(a0, f.count(), same));
			if(f.base) var("reindexed");
			if(op.var == 1) var("into-reindexed");
			set_dims(a, f.D, f.n);
			a.v     = f.v;
			a.exact_empty = f.exact_empty;  // "equal to the original in extents", also for an empty original
			e.elems = f.count();
			if(same && a0.count() > 0) e.expect_no_alloc = e.expect_base_unchanged = true;
			e.probe_id = same ? P_LOAD_SAME_EXT : P_LOAD_DIFF_EXT;
			return true;
		}
		MView dv;
		if(!model_view(M, T, op.da, op.a, op.ca, dv) || dv.count() == 0) return false;
		if(dv.D != f.D) return false;
		for(int k = 0; k < f.D; ++k)
			if(dv.n[k] != f.n[k]) return false;
		MArr& a        = tgt(0, op.da, op.a);
		e.viewwrite[0] = true;
		e.elems        = dv.count();
		e.expect_no_alloc = e.expect_base_unchanged = true;
		for(std::size_t i = 0; i < dv.off.size(); ++i) a.v[static_cast<std::size_t>(dv.off[i])] = f.v[i];
		e.touched[0].assign(a.v.size(), 0);  // after a stream fault the viewed elements are unspecified, all others unchanged
		for(int q : dv.off) e.touched[0][static_cast<std::size_t>(q)] = 1;
		var("into-view");
		e.probe_id = P_LOAD_INTO_VIEW;
		return true;
	}
	// ------------------------------------------------------------ MPI messages
	case O_MSG_PACK: case O_MSG_XFER: {
		if(!T.mpi) return false;
		MView sv;
		if(!model_view(M, T, op.da, op.a, op.ca, sv) || sv.count() == 0) return false;
		if(op.var < 0 || op.var > 15) return false;
		e.elems = sv.count();
		e.expect_no_alloc = true;
		static char const* vn[] = {"message(elements)", "skeleton+message", "message(buf,layout,type)", "create_subarray"};
		var(vn[op.var & 3]);
		if(op.kind == O_MSG_PACK) {
			e.reads_only = true;
			return true;
		}
		MView dv;
		if(!model_view(M, T, op.db, op.b, op.cb, dv) || dv.count() != sv.count()) return false;
		bool const same_root = op.da == op.db && op.a == op.b;
		if(same_root && !disjoint(dv, sv)) return false;
		MArr const& ra = M.at(op.da, op.a);
		MArr&       b  = tgt(0, op.db, op.b);
		e.viewwrite[0] = true;
		e.expect_base_unchanged = true;
		for(std::size_t i = 0; i < dv.off.size(); ++i) b.v[static_cast<std::size_t>(dv.off[i])] = ra.v[static_cast<std::size_t>(sv.off[i])];
		var(vn[(op.var >> 2) & 3]);
		if(!dv.same_extents(sv)) var("other-shape");
		return true;
	}
	default: return false;
	}
}

}  // namespace sim
