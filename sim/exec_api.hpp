// Light-weight interface between the worker main and the backends (no boost-multi includes).
#pragma once
#include <array>
#include <set>
#include <string>
#include <vector>

#include "gen.hpp"
#include "modelops.hpp"

namespace sim {

// ---------------------------------------------------------------- results and statistics
struct RunResult {
	bool        violated = false;
	std::string inv, detail, variant, property;
	int         step = -1, op_kind = -1;
	int         fault_kind = F_NONE;
	bool        fault_fired = false;
	u64         hash_full = 0, hash_obs = 0;
	int         ops_executed = 0, ops_skipped = 0;
	struct Extra {
		std::string inv, detail, property;
	};
	std::vector<Extra> extra;  // further, different violations recorded in the same step
	std::string signature() const { return variant + "|" + fault_name(fault_kind) + "|" + inv; }
	std::string signature_of(Extra const& x) const { return variant + "|" + fault_name(fault_kind) + "|" + x.inv; }
};

struct Stats {
	u64 runs = 0, ops = 0, skipped = 0, ticks = 0;
	u64 op_count[O_COUNT]{};
	u64 armed[F_COUNT]{}, fired[F_COUNT]{};
	u64 fired_by_op[O_COUNT][F_COUNT]{};
	u64 threw_ok = 0;  // faults that were delivered to the caller and left everything consistent
	std::set<u64> situations, situations_nontrivial;
	void reset() { *this = Stats{}; }
};
inline Stats G;

// context for crash handlers (terminate / abort / signal)
struct CrashCtx {
	u64         seed = 0;
	int         step = -1;
	int         op_kind = -1;
	int         fault_kind = F_NONE;
	bool        fault_fired = false;
	char        variant[96]{};
	char        assert_msg[256]{};
	char const* binary = "";
	bool        in_run = false;
};
inline CrashCtx g_crash;

inline char const* owner_property(int op_kind) {
	switch(op_kind) {
	case O_ASSIGN_IL: case O_ASSIGN_IL_EMPTY: case O_ASSIGN_ITER: case O_ASSIGN_RANGE:
	case O_REEXTENT: case O_REEXTENT_FILL: case O_REEXTENT_MOVE: case O_CLEAR: case O_RESHAPE: return "C06";
	case O_VASSIGN_VIEW: case O_VASSIGN_ARRAY: case O_VASSIGN_CONV: case O_VASSIGN_RANGE: case O_VASSIGN_IL: case O_VFILL:
	case O_VSWAP: case O_EASSIGN: case O_EASSIGN_IL: case O_ELEM_WRITE: case O_REF_ASSIGN: return "C05";
	case O_SAVE: case O_LOAD: return "C17";
	case O_MSG_PACK: case O_MSG_XFER: return "C18";
	default: return "C04";
	}
}

// Attribution of a violation to a property (DESIGN.md 4.8)
inline std::string attribute(std::string const& inv, int op_kind, bool fault_context) {
	auto starts = [&](char const* p) { return inv.rfind(p, 0) == 0; };
	if(inv == "I1-foreign-arena" || inv == "I4-allocator") return "C10";
	if(starts("PTR-") || inv == "DIFF-raw-vs-fancy") return "C11";
	if(starts("MPI-")) return "C18";
	if(inv == "HARNESS") return "HARNESS";
	if(inv == "V-extents" || inv == "V-value") return "C01";   // view algebra itself: not claimed by this family (reported as INFO)
	if(inv == "V-compare") return "C07";
	if(inv == "P-view-invalidated") return "C06";
	if(fault_context) return "C09";
	if(starts("I1-") || starts("I2-") || starts("I3-") || starts("LIFE-") || starts("DEALLOC-") || inv == "P-wrote-trivial" || starts("I5-")) return "C08";
	if((inv == "P-allocated" || inv == "P-element-events") && (op_kind == O_ASSIGN_MOVE || op_kind == O_CTOR_MOVE || op_kind == O_SWAP)) return "C04";
	if(inv == "WRONG-EXCEPTION") return owner_property(op_kind);  // (fault-free context) the operation threw although nothing failed: it did not do its job
	if(inv == "TERMINATE") return "C09";
	if(inv == "SANITIZER") return "C08";  // a memory error seen by ASan/UBSan in a fault-free context
	return owner_property(op_kind);
}


// per-op counts of eligible fault events of the last run (fault enumeration)
inline bool g_collect_fcnt = false;
inline std::vector<std::array<int, F_COUNT>> g_fcnt;

struct Backend {
	char const* name;
	ModelTraits traits;
	RunResult (*run)(Plan const&);
	void (*setup)();
};

}  // namespace sim
