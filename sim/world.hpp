// msim — deterministic simulation world for boost-multi: simulated memory (arenas, ledger,
// guard zones), fault arming, event counters, violation recording, run log hash, PRNG.
// Single-threaded by construction (the library under test has no threads).
#pragma once
#include <sys/mman.h>

#include <algorithm>
#include <cstdint>
#include <cstdio>
#include <cstdlib>
#include <cstring>
#include <new>
#include <string>
#include <vector>

namespace sim {

using i64 = std::int64_t;
using u64 = std::uint64_t;
using u32 = std::uint32_t;

// ---------------------------------------------------------------- PRNG (plan generation only)
struct Rng {
	u64 s[4];
	static u64 splitmix(u64& x) {
		u64 z = (x += 0x9E3779B97F4A7C15ull);
		z     = (z ^ (z >> 30)) * 0xBF58476D1CE4E5B9ull;
		z     = (z ^ (z >> 27)) * 0x94D049BB133111EBull;
		return z ^ (z >> 31);
	}
	explicit Rng(u64 seed) {
		u64 x = seed;
		for(auto& v : s) v = splitmix(x);
	}
	static u64 rotl(u64 x, int k) { return (x << k) | (x >> (64 - k)); }
	u64        next() {
        u64 const r = rotl(s[1] * 5, 7) * 9, t = s[1] << 17;
        s[2] ^= s[0];
        s[3] ^= s[1];
        s[1] ^= s[2];
        s[0] ^= s[3];
        s[2] ^= t;
        s[3] = rotl(s[3], 45);
        return r;
	}
	int  below(int n) { return n <= 0 ? 0 : static_cast<int>(next() % static_cast<u64>(n)); }  // [0,n)
	int  range(int lo, int hi) { return lo + below(hi - lo + 1); }                               // [lo,hi]
	bool chance(int num, int den) { return below(den) < num; }
	template<class V> auto& pick(V& v) { return v[static_cast<std::size_t>(below(static_cast<int>(v.size())))]; }
	int  weighted(std::vector<int> const& w) {
        int tot = 0;
        for(int x : w) tot += x;
        if(tot <= 0) return -1;
        int r = below(tot);
        for(std::size_t i = 0; i < w.size(); ++i) {
            if(r < w[i]) return static_cast<int>(i);
            r -= w[i];
        }
        return -1;
	}
};

// ---------------------------------------------------------------- faults and events
enum Fault : int { F_NONE = 0, F_ALLOC, F_DCTOR, F_CCTOR, F_CASSIGN, F_CONV, F_MCTOR, F_MASSIGN, F_EOF, F_WERR, F_COUNT };
inline char const* fault_name(int f) {
	static char const* n[] = {"none", "ALLOC_FAIL", "ELEM_DEFAULT_CTOR", "ELEM_COPY_CTOR", "ELEM_COPY_ASSIGN", "ELEM_CONVERT", "ELEM_MOVE_CTOR", "ELEM_MOVE_ASSIGN", "STREAM_EOF", "STREAM_WRITE_ERR"};
	return (f >= 0 && f < F_COUNT) ? n[f] : "?";
}
inline int fault_from_name(std::string const& s) {
	for(int f = 0; f < F_COUNT; ++f)
		if(s == fault_name(f)) return f;
	return -1;
}

enum Ev : int { E_ALLOC = 0, E_DEALLOC, E_DCTOR, E_VCTOR, E_CCTOR, E_MCTOR, E_CASSIGN, E_MASSIGN, E_CONV, E_DTOR, E_SREAD, E_SWRITE, E_COUNT };

struct injected_fault {
	int kind;
	int ordinal;
};

// ---------------------------------------------------------------- violations
struct Violation {
	std::string inv;     // invariant id, Appendix A of DESIGN.md
	std::string detail;  // human readable, no raw addresses
	int         step = -1;
	bool        during_op = false;
};

// ---------------------------------------------------------------- memory
struct Block {
	int  arena;
	u64  off;    // payload offset inside arena
	u64  bytes;  // payload bytes
	u64  n;      // element count requested
	u32  esz;
	bool live;
	u32  serial;
	int  step;  // allocating step
	bool harness;  // allocated by the harness itself (array_ref backing store)
};

struct World {
	static constexpr int         NARENA   = 4;
	static constexpr std::size_t ARENA_SZ = std::size_t{8} << 20;
	static constexpr std::size_t GUARD    = 32;
	static constexpr unsigned char FILL_FRESH = 0xA5, FILL_FREED = 0xDD, FILL_GUARD = 0xC3;

	unsigned char* region = nullptr;
	std::size_t    bump[NARENA]{};
	std::vector<Block> blocks;              // id = index
	std::vector<int>   by_off[NARENA];      // ids sorted by payload offset (one id per offset; reuse replaces)
	bool               reuse = false;       // freed blocks are reused immediately (same size) if true
	u32                serial = 0;

	// global heap (replaced operator new/delete in main.cpp): with heap_route set (backends over std::allocator) allocations made
	// while a library operation executes are served from arena 0 and are ledger blocks like any other; otherwise they are only counted
	bool heap_route = false;
	int  harness_depth = 0;      // > 0 while harness code runs inside an operation scope (its own strings must not reach the ledger)
	int  force_route = 0;        // > 0 while the harness itself builds a library object whose storage the library will later own
	int  heap_allocs_in_op = 0;  // calls of the global operator new made by the library inside the current operation (heap_route off)

	// faults
	bool in_op = false;
	int  armed_kind = F_NONE, armed_k = -1;
	bool fired = false;
	int  fcnt[F_COUNT]{};  // eligible events seen in this op, per fault kind
	int  ev[E_COUNT]{};    // events in this op
	u64  ev_total[E_COUNT]{};
	u64  tick = 0;

	// objects
	i64 live_arena = 0, live_ext = 0, live_ext_inop = 0;

	// violations
	std::vector<Violation> viol;
	int                    step = -1;

	// log hash
	u64 hash_full = 1469598103934665603ull, hash_obs = 1469598103934665603ull;

	// probes (rare-branch reach counters), cumulative over the process
	static constexpr int NPROBE = 64;
	u64 probe[NPROBE]{};

	void init() {
		if(region != nullptr) return;
		void* p = mmap(nullptr, NARENA * ARENA_SZ, PROT_READ | PROT_WRITE, MAP_PRIVATE | MAP_ANONYMOUS | MAP_NORESERVE, -1, 0);
		if(p == MAP_FAILED) {
			std::perror("mmap");
			std::_Exit(2);
		}
		region = static_cast<unsigned char*>(p);
	}

	void reset(bool reuse_blocks) {
		init();
		for(int a = 0; a < NARENA; ++a) {
			bump[a] = 0;
			by_off[a].clear();
		}
		blocks.clear();
		reuse  = reuse_blocks;
		serial = 0;
		in_op  = false;
		disarm();
		for(auto& e : ev) e = 0;
		live_arena = live_ext = live_ext_inop = 0;
		viol.clear();
		step      = -1;
		tick      = 0;
		hash_full = hash_obs = 1469598103934665603ull;
	}

	// ---- hashing (FNV-1a over 64-bit words)
	static void mix(u64& h, u64 v) {
		for(int i = 0; i < 8; ++i) {
			h ^= (v >> (8 * i)) & 0xFF;
			h *= 1099511628211ull;
		}
	}
	void log_full(u64 v) { mix(hash_full, v); }
	void log_obs(u64 v) {
		mix(hash_obs, v);
		mix(hash_full, v);
	}

	// ---- violations
	void violate(char const* inv, std::string detail) {
		if(viol.size() < 16) viol.push_back(Violation{inv, std::move(detail), step, in_op});
	}
	bool violated() const { return !viol.empty(); }

	// ---- faults
	void arm(int kind, int k) {
		armed_kind = kind;
		armed_k    = k;
		fired      = false;
	}
	void disarm() {
		armed_kind = F_NONE;
		armed_k    = -1;
		fired      = false;
		for(auto& c : fcnt) c = 0;
	}
	void begin_op() {
		for(auto& c : fcnt) c = 0;
		for(auto& e : ev) e = 0;
		heap_allocs_in_op = 0;
		in_op = true;
	}
	void end_op() { in_op = false; }
	// returns true if the caller must fail now
	bool hit(int kind) {
		if(!in_op) return false;
		int const c = fcnt[kind]++;
		if(kind == armed_kind && c == armed_k && !fired) {
			fired = true;
			return true;
		}
		return false;
	}
	void event(int e) {
		if(in_op) {
			++ev[e];
			++ev_total[e];
			++tick;
		}
	}

	// ---- address classification
	bool in_region(void const* p) const {
		auto const* c = static_cast<unsigned char const*>(p);
		return c >= region && c < region + NARENA * ARENA_SZ;
	}
	int arena_of(void const* p) const { return static_cast<int>((static_cast<unsigned char const*>(p) - region) / ARENA_SZ); }
	u64 off_of(void const* p) const { return static_cast<u64>((static_cast<unsigned char const*>(p) - region) % ARENA_SZ); }
	unsigned char* addr(int arena, u64 off) const { return region + static_cast<std::size_t>(arena) * ARENA_SZ + off; }

	// block id containing address p (payload or its one-past-the-end), or -1
	int find_block(void const* p) const {
		if(!in_region(p)) return -1;
		int const  a   = arena_of(p);
		u64 const  off = off_of(p);
		auto const& v  = by_off[a];
		// last block with blocks[id].off <= off
		std::size_t lo = 0, hi = v.size();
		while(lo < hi) {
			std::size_t mid = (lo + hi) / 2;
			if(blocks[static_cast<std::size_t>(v[mid])].off <= off) lo = mid + 1;
			else hi = mid;
		}
		if(lo == 0) return -1;
		int const    id = v[lo - 1];
		Block const& b  = blocks[static_cast<std::size_t>(id)];
		if(off <= b.off + b.bytes) return id;
		return -1;
	}

	std::string describe(void const* p) const {
		char buf[128];
		if(!in_region(p)) return "external";
		int const id = find_block(p);
		if(id < 0) {
			std::snprintf(buf, sizeof buf, "arena%d+%llu(no block)", arena_of(p), static_cast<unsigned long long>(off_of(p)));
			return buf;
		}
		Block const& b = blocks[static_cast<std::size_t>(id)];
		std::snprintf(buf, sizeof buf, "arena%d.block#%u%s+%lld", b.arena, b.serial, b.live ? "" : "(freed)", static_cast<long long>(off_of(p)) - static_cast<long long>(b.off));
		return buf;
	}

	// ---- allocation
	struct HGuard {  // harness code inside an operation scope
		HGuard() { ++depth(); }
		~HGuard() { --depth(); }
		HGuard(HGuard const&) = delete;
		auto operator=(HGuard const&) -> HGuard& = delete;
		static int& depth();
	};
	void* allocate(int arena, std::size_t n, std::size_t esz, bool harness = false) {
		HGuard hg;
		if(!harness) {
			event(E_ALLOC);
			if(hit(F_ALLOC)) throw std::bad_alloc{};
		}
		if(arena < 0 || arena >= NARENA) {
			violate("HARNESS", "allocate on bad arena");
			arena = 0;
		}
		std::size_t const bytes = n * esz;
		// reuse: newest freed block of identical byte size in this arena
		if(reuse && bytes > 0) {
			for(std::size_t i = by_off[arena].size(); i-- > 0;) {
				Block& old = blocks[static_cast<std::size_t>(by_off[arena][i])];
				if(!old.live && old.bytes == bytes) {
					if(!freed_fill_ok(old)) violate("I3-write-after-free", "freed block modified before reuse: arena" + std::to_string(old.arena) + ".block#" + std::to_string(old.serial));
					Block nb   = old;
					nb.n       = n;
					nb.esz     = static_cast<u32>(esz);
					nb.live    = true;
					nb.serial  = serial++;
					nb.step    = step;
					nb.harness = harness;
					int const id = static_cast<int>(blocks.size());
					blocks.push_back(nb);
					by_off[arena][i] = id;
					std::memset(addr(arena, nb.off), FILL_FRESH, bytes);
					probe[0]++;  // P_REUSE
					return addr(arena, nb.off);
				}
			}
		}
		std::size_t off = (bump[arena] + GUARD + 15) & ~std::size_t{15};
		std::size_t end = off + bytes + GUARD;
		if(end > ARENA_SZ) {
			violate("HARNESS", "arena exhausted");
			throw std::bad_alloc{};
		}
		std::memset(addr(arena, off - GUARD), FILL_GUARD, GUARD);
		std::memset(addr(arena, off), FILL_FRESH, bytes);
		std::memset(addr(arena, off + bytes), FILL_GUARD, GUARD);
		bump[arena] = end;
		Block b{arena, off, bytes, n, static_cast<u32>(esz), true, serial++, step, harness};
		int const id = static_cast<int>(blocks.size());
		blocks.push_back(b);
		by_off[arena].push_back(id);
		return addr(arena, off);
	}

	// returns false (and records a violation) if the call is not a legal release
	bool deallocate(int arena_of_allocator, void const* p, std::size_t n, std::size_t esz, bool harness = false) {
		HGuard hg;
		if(!harness) event(E_DEALLOC);
		int const id = find_block(p);
		if(id < 0) {
			violate("DEALLOC-unknown", "deallocate(" + describe(p) + ", n=" + std::to_string(n) + ") of an address that is no block");
			return false;
		}
		Block& b = blocks[static_cast<std::size_t>(id)];
		if(addr(b.arena, b.off) != p) {
			violate("DEALLOC-unknown", "deallocate(" + describe(p) + ") does not point to the start of a block");
			return false;
		}
		if(!b.live) {
			violate("DEALLOC-double", "deallocate(" + describe(p) + ") of a block that is already freed");
			return false;
		}
		if(b.n != n || b.esz != esz) {
			violate("DEALLOC-wrong-size", "deallocate(" + describe(p) + ", n=" + std::to_string(n) + ") but the block was allocated with n=" + std::to_string(b.n));
			// still release it: the block is gone as far as the library is concerned
		}
		if(b.arena != arena_of_allocator) {
			violate("I1-foreign-arena", "block of arena" + std::to_string(b.arena) + " deallocated through an allocator of arena" + std::to_string(arena_of_allocator));
		}
		b.live = false;
		std::memset(addr(b.arena, b.off), FILL_FREED, b.bytes);
		return true;
	}

	bool freed_fill_ok(Block const& b) const {
		unsigned char const* p = addr(b.arena, b.off);
		for(u64 i = 0; i < b.bytes; ++i)
			if(p[i] != FILL_FREED) return false;
		return true;
	}
	bool guards_ok(Block const& b) const {
		unsigned char const* lo = addr(b.arena, b.off - GUARD);
		unsigned char const* hi = addr(b.arena, b.off + b.bytes);
		for(std::size_t i = 0; i < GUARD; ++i)
			if(lo[i] != FILL_GUARD || hi[i] != FILL_GUARD) return false;
		return true;
	}
	// I3: guard zones of all current blocks and fill of all freed, not reused blocks
	void check_memory() {
		for(int a = 0; a < NARENA; ++a) {
			for(int id : by_off[a]) {
				Block const& b = blocks[static_cast<std::size_t>(id)];
				if(!guards_ok(b)) violate("I3-guard", "guard zone of arena" + std::to_string(b.arena) + ".block#" + std::to_string(b.serial) + " overwritten");
				if(!b.live && !freed_fill_ok(b)) violate("I3-write-after-free", "freed block arena" + std::to_string(b.arena) + ".block#" + std::to_string(b.serial) + " modified");
			}
		}
	}
	int live_blocks(int arena, bool include_harness = false) const {
		int c = 0;
		for(int id : by_off[arena]) {
			Block const& b = blocks[static_cast<std::size_t>(id)];
			if(b.live && (include_harness || !b.harness)) ++c;
		}
		return c;
	}
};

inline World W;
inline int& World::HGuard::depth() { return W.harness_depth; }
using HGuard = World::HGuard;

// ---------------------------------------------------------------- probes
enum Probe : int {
	P_REUSE = 0,
	P_ASSIGN_SAME_EXT, P_ASSIGN_DIFF_EXT, P_ASSIGN_RESHAPE_PATH, P_ASSIGN_TO_EMPTY, P_ASSIGN_FROM_EMPTY, P_ASSIGN_TO_MOVED_FROM,
	P_REEXT_GROW, P_REEXT_SHRINK, P_REEXT_MIXED, P_REEXT_TO_EMPTY, P_REEXT_FROM_EMPTY, P_REEXT_NOOP,
	P_MOVE_ASSIGN_UNEQUAL_ALLOC, P_FAULT_IN_CTOR, P_FAULT_FIRED_LATE, P_FAULT_DURING_LOAD, P_RETRY_AFTER_FAULT,
	P_VIEW_STRIDED, P_VIEW_ROTATED, P_VIEW_D_CHANGED, P_VIEW_SAME_ROOT, P_STREAM_CHUNK1, P_DIRTY_RESYNC, P_SELF_ASSIGN,
	P_COPY_OTHER_ARENA, P_SWAP_OTHER_ARENA, P_TRIVIAL_UNWRITTEN_CHECKED, P_HELD_VIEW_CHECKED, P_MOVED_ELEMENTS,
	P_LOAD_DIFF_EXT, P_LOAD_SAME_EXT, P_LOAD_INTO_VIEW, P_MPI_STRIDED, P_COUNT_
};
inline char const* probe_name(int p) {
	static char const* n[] = {"block_reused_immediately",
	    "assign_same_extents", "assign_different_extents", "assign_reshape_path", "assign_to_empty", "assign_from_empty", "assign_to_moved_from",
	    "reextent_grow", "reextent_shrink", "reextent_mixed", "reextent_to_empty", "reextent_from_empty", "reextent_noop",
	    "move_assign_unequal_allocators", "fault_fired_in_constructor", "fault_fired_after_first_event", "fault_fired_during_load", "retry_after_fault",
	    "view_strided", "view_rotated", "view_dimension_changed", "view_assign_same_root", "stream_one_byte_chunks", "dirty_resync", "self_assignment",
	    "copy_assign_same_extents_other_arena", "swap_other_arena", "trivial_unwritten_checked", "held_view_checked", "moved_elements_checked",
	    "load_different_extents", "load_same_extents", "load_into_view", "mpi_strided_message"};
	return (p >= 0 && p < P_COUNT_) ? n[p] : "?";
}
inline void probe(int p) { ++W.probe[p]; }

}  // namespace sim
