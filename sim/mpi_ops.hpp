// C18: MPI datatype-handle ledger in front of the real OpenMPI (the MPI standard's own PMPI interposition
// seam), an independent typemap model, and pack/unpack through the real library in singleton mode.
#pragma once
#include <boost/multi/adaptors/mpi.hpp>

#include <map>
#include <vector>

#include "exec.hpp"

namespace sim {

struct MpiType {
	bool              live = false, committed = false, predefined = false;
	std::vector<long> map;   // byte displacements of the basic elements, in typemap order
	long              lb = 0, extent = 0;
	int               ordinal = -1;
};
struct MpiLedger {
	std::map<MPI_Datatype, MpiType> types;
	int created = 0, freed = 0, committed = 0, next_ordinal = 0;
	void reset() {
		types.clear();
		created = freed = committed = next_ordinal = 0;
	}
	MpiType const* get(MPI_Datatype h) {
		auto it = types.find(h);
		if(it != types.end() && it->second.live) return &it->second;
		if(h == MPI_INT || h == MPI_DOUBLE || h == MPI_FLOAT) {
			MpiType t;
			t.live = t.committed = t.predefined = true;
			t.map    = {0};
			t.extent = h == MPI_DOUBLE ? 8 : 4;
			types[h] = t;
			return &types[h];
		}
		return nullptr;
	}
	void add(MPI_Datatype h, MpiType t) {
		t.live      = true;
		t.committed = false;
		t.ordinal   = next_ordinal++;
		types[h]    = std::move(t);
		++created;
	}
	int live_user_types() const {
		int c = 0;
		for(auto const& kv : types)
			if(kv.second.live && !kv.second.predefined) ++c;
		return c;
	}
};
inline MpiLedger MPIL;
inline bool       g_mpi_intercept = false;

}  // namespace sim

// ---- PMPI interposition: these definitions take precedence over the weak MPI_* symbols of libmpi
extern "C" {
int MPI_Type_create_hvector(int count, int blocklength, MPI_Aint stride, MPI_Datatype oldtype, MPI_Datatype* newtype) {
	int rc = PMPI_Type_create_hvector(count, blocklength, stride, oldtype, newtype);
	if(sim::g_mpi_intercept) {
		++sim::W.tick;
		auto const* o = sim::MPIL.get(oldtype);
		sim::MpiType t;
		if(o == nullptr) sim::W.violate("MPI-uncommitted-use", "MPI_Type_create_hvector over a datatype handle that is not alive");
		else {
			for(int i = 0; i < count; ++i)
				for(int j = 0; j < blocklength; ++j)
					for(long d : o->map) t.map.push_back(static_cast<long>(i) * static_cast<long>(stride) + static_cast<long>(j) * o->extent + d);
			t.extent = count > 0 ? static_cast<long>(count - 1) * static_cast<long>(stride) + static_cast<long>(blocklength) * o->extent : 0;
		}
		sim::MPIL.add(*newtype, t);
	}
	return rc;
}
int MPI_Type_create_resized(MPI_Datatype oldtype, MPI_Aint lb, MPI_Aint extent, MPI_Datatype* newtype) {
	int rc = PMPI_Type_create_resized(oldtype, lb, extent, newtype);
	if(sim::g_mpi_intercept) {
		auto const* o = sim::MPIL.get(oldtype);
		sim::MpiType t;
		if(o == nullptr) sim::W.violate("MPI-uncommitted-use", "MPI_Type_create_resized over a datatype handle that is not alive");
		else t.map = o->map;
		t.lb     = static_cast<long>(lb);
		t.extent = static_cast<long>(extent);
		sim::MPIL.add(*newtype, t);
	}
	return rc;
}
int MPI_Type_vector(int count, int blocklength, int stride, MPI_Datatype oldtype, MPI_Datatype* newtype) {
	int rc = PMPI_Type_vector(count, blocklength, stride, oldtype, newtype);
	if(sim::g_mpi_intercept) {
		auto const* o = sim::MPIL.get(oldtype);
		sim::MpiType t;
		if(o == nullptr) sim::W.violate("MPI-uncommitted-use", "MPI_Type_vector over a datatype handle that is not alive");
		else {
			for(int i = 0; i < count; ++i)
				for(int j = 0; j < blocklength; ++j)
					for(long d : o->map) t.map.push_back((static_cast<long>(i) * stride + j) * o->extent + d);
			t.extent = count > 0 ? (static_cast<long>(count - 1) * stride + blocklength) * o->extent : 0;
		}
		sim::MPIL.add(*newtype, t);
	}
	return rc;
}
int MPI_Type_dup(MPI_Datatype oldtype, MPI_Datatype* newtype) {
	int rc = PMPI_Type_dup(oldtype, newtype);
	if(sim::g_mpi_intercept) {
		auto const* o = sim::MPIL.get(oldtype);
		sim::MpiType t;
		if(o != nullptr) {
			t.map    = o->map;
			t.lb     = o->lb;
			t.extent = o->extent;
		}
		sim::MPIL.add(*newtype, t);
	}
	return rc;
}
int MPI_Type_commit(MPI_Datatype* datatype) {
	if(sim::g_mpi_intercept) {
		auto it = sim::MPIL.types.find(*datatype);
		if(it == sim::MPIL.types.end() || !it->second.live) sim::W.violate("MPI-uncommitted-use", "MPI_Type_commit of a datatype handle that is not alive");
		else {
			it->second.committed = true;
			++sim::MPIL.committed;
		}
	}
	return PMPI_Type_commit(datatype);
}
int MPI_Type_free(MPI_Datatype* datatype) {
	if(sim::g_mpi_intercept) {
		auto it = sim::MPIL.types.find(*datatype);
		if(it == sim::MPIL.types.end() || !it->second.live || it->second.predefined) {
			sim::W.violate("MPI-double-free", "MPI_Type_free of a datatype handle that is not alive (freed twice, never created, or predefined)");
			*datatype = MPI_DATATYPE_NULL;
			return MPI_SUCCESS;  // not forwarded: the real library would abort
		}
		it->second.live = false;
		++sim::MPIL.freed;
	}
	return PMPI_Type_free(datatype);
}
int MPI_Pack(void const* inbuf, int incount, MPI_Datatype datatype, void* outbuf, int outsize, int* position, MPI_Comm comm) {
	if(sim::g_mpi_intercept) {
		auto const* t = sim::MPIL.get(datatype);
		if(t == nullptr || !t->committed) {
			sim::W.violate("MPI-uncommitted-use", "MPI_Pack with a datatype that is not alive or not committed");
			return MPI_SUCCESS;
		}
	}
	return PMPI_Pack(inbuf, incount, datatype, outbuf, outsize, position, comm);
}
int MPI_Unpack(void const* inbuf, int insize, int* position, void* outbuf, int outcount, MPI_Datatype datatype, MPI_Comm comm) {
	if(sim::g_mpi_intercept) {
		auto const* t = sim::MPIL.get(datatype);
		if(t == nullptr || !t->committed) {
			sim::W.violate("MPI-uncommitted-use", "MPI_Unpack with a datatype that is not alive or not committed");
			return MPI_SUCCESS;
		}
	}
	return PMPI_Unpack(inbuf, insize, position, outbuf, outcount, datatype, comm);
}
}  // extern "C"

namespace sim {

inline void mpi_setup() {
	static bool done = false;
	if(done) return;
	done = true;
	int argc = 0;
	char** argv = nullptr;
	if(MPI_Init(&argc, &argv) != MPI_SUCCESS) {
		std::fprintf(stderr, "MPI_Init failed\n");
		std::_Exit(2);
	}
	MPI_Comm_set_errhandler(MPI_COMM_SELF, MPI_ERRORS_RETURN);
	MPI_Comm_set_errhandler(MPI_COMM_WORLD, MPI_ERRORS_RETURN);
	std::atexit([] { MPI_Finalize(); });
}

// message (buf, count, type) -> the byte displacements it denotes, from the typemap model
inline bool message_displacements(MPI_Datatype dt, long count, std::vector<long>& out) {
	auto const* t = MPIL.get(dt);
	if(t == nullptr) return false;
	out.clear();
	for(long c = 0; c < count; ++c)
		for(long d : t->map) out.push_back(c * t->extent + d);
	return true;
}

template<class Cfg>
template<class V, class F>
void Exec<Cfg>::mpi_with_message(V&& view, int var, F&& body) {
	namespace mpi = boost::multi::mpi;
	using VT      = std::decay_t<V>;
	auto const& cv = static_cast<multi::const_subarray<E, VT::rank_v, P> const&>(view);
	if(var == 1) {
		auto&& els = cv.elements();
		mpi::skeleton<> sk(els.layout(), mpi::datatype<E>);
		mpi::message<>  msg(const_cast<void*>(static_cast<void const*>(raw_of(els.base()))), std::move(sk));
		body(msg.buffer(), static_cast<long>(msg.count()), msg.datatype());
	} else if(var == 2) {
		auto&& els = cv.elements();
		mpi::message<> msg(const_cast<void*>(static_cast<void const*>(raw_of(els.base()))), els.layout(), mpi::datatype<E>);
		body(msg.buffer(), static_cast<long>(msg.count()), msg.datatype());
	} else if(var == 3) {
		// create_subarray: one committed-by-us datatype describing the whole view, count 1
		auto&&       els = cv.elements();
		MPI_Datatype whole;
		mpi::create_subarray(els.layout(), mpi::datatype<E>, &whole);
		MPI_Type_commit(&whole);
		body(const_cast<void*>(static_cast<void const*>(raw_of(els.base()))), 1L, whole);
		MPI_Type_free(&whole);
	} else {
		mpi::message<> msg(cv.elements());
		body(msg.buffer(), static_cast<long>(msg.count()), msg.datatype());
	}
}

template<class Cfg>
bool Exec<Cfg>::mpi_op(Op const& op) {
	bool handled = true;
	AV   sav;
	if(!real_view(op.da, op.a, op.ca, sav)) return false;
	MView smv;
	if(!model_view(M, T, op.da, op.a, op.ca, smv)) return false;
	std::vector<i64> const want = gather(M.at(op.da, op.a), smv);
	g_mpi_intercept = true;
	MPIL.reset();
	std::vector<E> packed(want.size());
	handled = dispatch_dim(sav.D, [&](auto Dc) {
		constexpr int D  = decltype(Dc)::value;
		auto          sv = sav.template make<D>();
		OpScope       s;
		mpi_with_message(sv, op.var & 3, [&](void* buf, long count, MPI_Datatype dt) {
			// (ii) typemap model: count x the datatype's displacement list == byte offsets of elements() in canonical order
			std::vector<long> disp;
			if(!message_displacements(dt, count, disp)) { fail("MPI-uncommitted-use", "the message's datatype is not alive"); return; }
			std::vector<long> real;
			{
				auto const& csv = static_cast<multi::const_subarray<E, D, P> const&>(sv);
				auto&&      els = csv.elements();
				for(auto it = els.begin(); it != els.end(); ++it) real.push_back(static_cast<long>(reinterpret_cast<char const*>(std::addressof(*it)) - static_cast<char const*>(buf)));
			}
			if(disp != real) {
				fail("MPI-typemap", "the message denotes " + std::to_string(disp.size()) + " element displacement(s) that differ from the " + std::to_string(real.size()) + " element(s) of the view in canonical order");
				return;
			}
			// (iii) real OpenMPI: packed bytes == elements() sequence
			int pos = 0;
			int const rc = MPI_Pack(buf, static_cast<int>(count), dt, packed.data(), static_cast<int>(packed.size() * sizeof(E)), &pos, MPI_COMM_SELF);
			if(rc != MPI_SUCCESS || pos != static_cast<int>(packed.size() * sizeof(E))) fail("MPI-pack", "MPI_Pack returned " + std::to_string(rc) + " and produced " + std::to_string(pos) + " bytes for " + std::to_string(packed.size()) + " elements");
		});
	});
	if(handled && !W.violated()) {
		bool ok = true;
		for(std::size_t k = 0; k < want.size(); ++k)
			if(ET::read(packed[k], ok) != want[k]) {
				fail("MPI-pack", "element " + std::to_string(k) + " of the packed message is " + std::to_string(ET::read(packed[k], ok)) + " but the view's element is " + std::to_string(want[k]));
				break;
			}
		if(smv.D >= 2 || (op.ca.n > 0)) probe(P_MPI_STRIDED);
	}
	if(handled && !W.violated() && op.kind == O_MSG_XFER) {
		AV dav;
		if(!real_view(op.db, op.b, op.cb, dav)) {
			g_mpi_intercept = false;
			return false;
		}
		handled = dispatch_dim(dav.D, [&](auto Dc) {
			constexpr int D  = decltype(Dc)::value;
			auto          dv = dav.template make<D>();
			OpScope       s;
			mpi_with_message(dv, (op.var >> 2) & 3, [&](void* buf, long count, MPI_Datatype dt) {
				std::vector<long> disp, real;
				if(!message_displacements(dt, count, disp)) { fail("MPI-uncommitted-use", "the destination message's datatype is not alive"); return; }
				{
					auto const& cdv = static_cast<multi::const_subarray<E, D, P> const&>(dv);
					auto&&      els = cdv.elements();
					for(auto it = els.begin(); it != els.end(); ++it) real.push_back(static_cast<long>(reinterpret_cast<char const*>(std::addressof(*it)) - static_cast<char const*>(buf)));
				}
				if(disp != real) {
					fail("MPI-typemap", "the destination message denotes " + std::to_string(disp.size()) + " element displacement(s) that differ from the " + std::to_string(real.size()) + " element(s) of the view in canonical order");
					return;  // unpacking through a wrong datatype would write outside the view
				}
				int pos = 0;
				int const rc = MPI_Unpack(packed.data(), static_cast<int>(packed.size() * sizeof(E)), &pos, buf, static_cast<int>(count), dt, MPI_COMM_SELF);
				if(rc != MPI_SUCCESS || pos != static_cast<int>(packed.size() * sizeof(E))) fail("MPI-unpack", "MPI_Unpack returned " + std::to_string(rc) + " and consumed " + std::to_string(pos) + " bytes of " + std::to_string(packed.size() * sizeof(E)));
			});
		});
	}
	// handle ledger: everything created in this step has been freed exactly once
	if(MPIL.live_user_types() != 0) fail("MPI-never-freed", std::to_string(MPIL.live_user_types()) + " datatype handle(s) created by the message are still alive after it was destroyed (" + std::to_string(MPIL.created) + " created, " + std::to_string(MPIL.freed) + " freed)");
	g_mpi_intercept = false;
	return handled;
}

}  // namespace sim
