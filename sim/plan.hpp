// Plans: explicit operation lists (what a replay file contains). Text form: one op per line,
//   KIND key=value key=value ...
// Execution of a plan uses no randomness.
#pragma once
#include <array>
#include <sstream>
#include <string>
#include <vector>

#include "world.hpp"

namespace sim {

inline constexpr int MAXD = 5;  // maximum dimensionality of any view/array handled

// ---------------------------------------------------------------- view chains
enum StepKind : int {
	S_IDX = 0, S_SLICED, S_STRIDED, S_DROPPED, S_TAKED, S_ROTATED, S_UNROTATED, S_TRANSPOSED, S_REVERSED,
	S_DIAGONAL, S_PARTITIONED, S_CHUNKED, S_FLATTED, S_CALL, S_PAREN, S_RANGE, S_HALVED, S_COUNT
};
inline char const* step_name(int k) {
	static char const* n[] = {"ix", "sl", "st", "dr", "tk", "rot", "unrot", "tr", "rev", "diag", "part", "chunk", "flat", "call", "paren", "range", "halved"};
	return (k >= 0 && k < S_COUNT) ? n[k] : "?";
}
struct Step {
	int kind = S_PAREN;
	int a = 0, b = 0;       // arguments (index / first,last / stride / count)
	int mode = 0;           // receiver category: 0 = rvalue, 1 = lvalue, 2 = const lvalue
	int nargs = 0;          // S_CALL: per-argument kind: 0 = index, 1 = range [a,b), 2 = all
	int ak[4]{}, aa[4]{}, ab[4]{};
};
struct Chain {
	int  n = 0;
	Step s[3];
};

// ---------------------------------------------------------------- operations
enum OpKind : int {
	O_CTOR_DEFAULT = 0, O_CTOR_ALLOC, O_CTOR_EXT, O_CTOR_EXT_ELEM, O_CTOR_COPY, O_CTOR_COPY_ALLOC, O_CTOR_MOVE, O_CTOR_MOVE_ALLOC,
	O_CTOR_VIEW, O_CTOR_RANGE, O_CTOR_IL, O_CTOR_CONV, O_DECAY, O_DESTROY,
	O_ASSIGN_COPY, O_ASSIGN_MOVE, O_ASSIGN_SELF, O_ASSIGN_VIEW, O_ASSIGN_CONV, O_ASSIGN_IL, O_ASSIGN_IL_EMPTY, O_ASSIGN_ITER, O_ASSIGN_RANGE, O_FROM, O_SWAP,
	O_REEXTENT, O_REEXTENT_FILL, O_REEXTENT_MOVE, O_CLEAR, O_RESHAPE,
	O_VASSIGN_VIEW, O_VASSIGN_ARRAY, O_VASSIGN_CONV, O_VASSIGN_RANGE, O_VASSIGN_IL, O_VFILL, O_VSWAP, O_EASSIGN, O_EASSIGN_IL, O_ELEM_WRITE,
	O_READ, O_COMPARE, O_HOLD, O_RELOCATE, O_VEC_PUSH,
	O_SAVE, O_LOAD, O_MSG_PACK, O_MSG_XFER, O_REF_ASSIGN,
	O_COUNT
};
inline char const* op_name(int k) {
	static char const* n[] = {
	    "CTOR_DEFAULT", "CTOR_ALLOC", "CTOR_EXT", "CTOR_EXT_ELEM", "CTOR_COPY", "CTOR_COPY_ALLOC", "CTOR_MOVE", "CTOR_MOVE_ALLOC",
	    "CTOR_VIEW", "CTOR_RANGE", "CTOR_IL", "CTOR_CONV", "DECAY", "DESTROY",
	    "ASSIGN_COPY", "ASSIGN_MOVE", "ASSIGN_SELF", "ASSIGN_VIEW", "ASSIGN_CONV", "ASSIGN_IL", "ASSIGN_IL_EMPTY", "ASSIGN_ITER", "ASSIGN_RANGE", "FROM", "SWAP",
	    "REEXTENT", "REEXTENT_FILL", "REEXTENT_MOVE", "CLEAR", "RESHAPE",
	    "VASSIGN_VIEW", "VASSIGN_ARRAY", "VASSIGN_CONV", "VASSIGN_RANGE", "VASSIGN_IL", "VFILL", "VSWAP", "EASSIGN", "EASSIGN_IL", "ELEM_WRITE",
	    "READ", "COMPARE", "HOLD", "RELOCATE", "VEC_PUSH",
	    "SAVE", "LOAD", "MSG_PACK", "MSG_XFER", "REF_ASSIGN"};
	return (k >= 0 && k < O_COUNT) ? n[k] : "?";
}

struct Op {
	int   kind = O_READ;
	int   var  = 0;          // variant (call form) within the kind
	int   da = 0, db = 0;    // dimensionality of slot a / slot b
	int   a = -1, b = -1;    // slots
	int   nx = 0;
	int   x[MAXD]{};         // extents / indices
	int   ar = 0;            // arena for allocator-extended forms
	i64   v  = 0;            // value base
	Chain ca, cb;            // view chains on a / b
	int   fk = F_NONE, fn = -1;  // attached fault (kind, k-th eligible event inside this op)
	int   file = 0;          // file id (serialization)
	int   arch = 0;          // archive kind
	int   ov   = 0;          // 1: source and destination views of the same root may overlap (C11 differential runs only)
};

struct Knobs {
	bool reuse    = false;  // freed blocks are reused immediately
	int  chunk_r  = 0;      // stream read chunk size (0 = unlimited)
	int  chunk_w  = 0;      // stream write chunk size
};

struct Plan {
	u64             seed = 0;
	Knobs           knobs;
	std::vector<Op> ops;
};

// ---------------------------------------------------------------- text form
inline std::string chain_to_string(Chain const& c) {
	std::ostringstream o;
	for(int i = 0; i < c.n; ++i) {
		Step const& s = c.s[i];
		if(i) o << '/';
		o << step_name(s.kind);
		switch(s.kind) {
		case S_IDX: case S_STRIDED: case S_DROPPED: case S_TAKED: case S_PARTITIONED: case S_CHUNKED: o << ':' << s.a; break;
		case S_SLICED: case S_RANGE: o << ':' << s.a << ':' << s.b; break;
		case S_CALL:
			for(int k = 0; k < s.nargs; ++k) {
				o << ':';
				if(s.ak[k] == 0) o << 'i' << s.aa[k];
				else if(s.ak[k] == 1) o << 'r' << s.aa[k] << '-' << s.ab[k];
				else o << '_';
			}
			break;
		default: break;
		}
		if(s.mode) o << '@' << s.mode;
	}
	return o.str();
}

inline bool parse_chain(std::string const& str, Chain& c) {
	c = Chain{};
	if(str.empty()) return true;
	std::size_t pos = 0;
	while(pos <= str.size()) {
		std::size_t end = str.find('/', pos);
		if(end == std::string::npos) end = str.size();
		std::string tok = str.substr(pos, end - pos);
		pos             = end + 1;
		if(c.n >= 3) return false;
		Step s;
		std::size_t at = tok.find('@');
		if(at != std::string::npos) {
			s.mode = std::atoi(tok.c_str() + at + 1);
			tok    = tok.substr(0, at);
		}
		std::vector<std::string> parts;
		std::size_t p = 0;
		while(true) {
			std::size_t q = tok.find(':', p);
			parts.push_back(tok.substr(p, q == std::string::npos ? std::string::npos : q - p));
			if(q == std::string::npos) break;
			p = q + 1;
		}
		s.kind = -1;
		for(int k = 0; k < S_COUNT; ++k)
			if(parts[0] == step_name(k)) s.kind = k;
		if(s.kind < 0) return false;
		if(s.kind == S_CALL) {
			s.nargs = static_cast<int>(parts.size()) - 1;
			if(s.nargs < 1 || s.nargs > 4) return false;
			for(int k = 0; k < s.nargs; ++k) {
				std::string const& a = parts[static_cast<std::size_t>(k) + 1];
				if(a.empty()) return false;
				if(a[0] == 'i') {
					s.ak[k] = 0;
					s.aa[k] = std::atoi(a.c_str() + 1);
				} else if(a[0] == 'r') {
					s.ak[k]        = 1;
					std::size_t dd = a.find('-', 1);
					if(dd == std::string::npos) return false;
					s.aa[k] = std::atoi(a.substr(1, dd - 1).c_str());
					s.ab[k] = std::atoi(a.c_str() + dd + 1);
				} else if(a[0] == '_') {
					s.ak[k] = 2;
				} else return false;
			}
		} else {
			if(parts.size() > 1) s.a = std::atoi(parts[1].c_str());
			if(parts.size() > 2) s.b = std::atoi(parts[2].c_str());
		}
		c.s[c.n++] = s;
		if(end == str.size()) break;
	}
	return true;
}

inline std::string op_to_string(Op const& o) {
	std::ostringstream s;
	s << op_name(o.kind);
	if(o.var) s << " var=" << o.var;
	if(o.da) s << " da=" << o.da;
	if(o.db) s << " db=" << o.db;
	if(o.a >= 0) s << " a=" << o.a;
	if(o.b >= 0) s << " b=" << o.b;
	if(o.nx) {
		s << " x=";
		for(int i = 0; i < o.nx; ++i) s << (i ? "," : "") << o.x[i];
	}
	if(o.ar) s << " ar=" << o.ar;
	if(o.v) s << " v=" << o.v;
	if(o.ca.n) s << " ca=" << chain_to_string(o.ca);
	if(o.cb.n) s << " cb=" << chain_to_string(o.cb);
	if(o.file) s << " file=" << o.file;
	if(o.arch) s << " arch=" << o.arch;
	if(o.ov) s << " ov=" << o.ov;
	if(o.fk != F_NONE) s << " f=" << fault_name(o.fk) << ':' << o.fn;
	return s.str();
}

inline bool parse_op(std::string const& line, Op& o, std::string& err) {
	o = Op{};
	std::istringstream in(line);
	std::string        tok;
	if(!(in >> tok)) {
		err = "empty op line";
		return false;
	}
	o.kind = -1;
	for(int k = 0; k < O_COUNT; ++k)
		if(tok == op_name(k)) o.kind = k;
	if(o.kind < 0) {
		err = "unknown op " + tok;
		return false;
	}
	while(in >> tok) {
		std::size_t eq = tok.find('=');
		if(eq == std::string::npos) {
			err = "bad token " + tok;
			return false;
		}
		std::string k = tok.substr(0, eq), val = tok.substr(eq + 1);
		if(k == "var") o.var = std::atoi(val.c_str());
		else if(k == "da") o.da = std::atoi(val.c_str());
		else if(k == "db") o.db = std::atoi(val.c_str());
		else if(k == "a") o.a = std::atoi(val.c_str());
		else if(k == "b") o.b = std::atoi(val.c_str());
		else if(k == "ar") o.ar = std::atoi(val.c_str());
		else if(k == "v") o.v = std::atoll(val.c_str());
		else if(k == "file") o.file = std::atoi(val.c_str());
		else if(k == "arch") o.arch = std::atoi(val.c_str());
		else if(k == "ov") o.ov = std::atoi(val.c_str());
		else if(k == "x") {
			o.nx          = 0;
			std::size_t p = 0;
			while(p <= val.size() && o.nx < MAXD) {
				std::size_t q = val.find(',', p);
				std::string e = val.substr(p, q == std::string::npos ? std::string::npos : q - p);
				if(!e.empty()) o.x[o.nx++] = std::atoi(e.c_str());
				if(q == std::string::npos) break;
				p = q + 1;
			}
		} else if(k == "ca") {
			if(!parse_chain(val, o.ca)) {
				err = "bad chain " + val;
				return false;
			}
		} else if(k == "cb") {
			if(!parse_chain(val, o.cb)) {
				err = "bad chain " + val;
				return false;
			}
		} else if(k == "f") {
			std::size_t c = val.find(':');
			if(c == std::string::npos) {
				err = "bad fault " + val;
				return false;
			}
			o.fk = fault_from_name(val.substr(0, c));
			o.fn = std::atoi(val.c_str() + c + 1);
			if(o.fk < 0) {
				err = "bad fault kind " + val;
				return false;
			}
		} else {
			err = "unknown key " + k;
			return false;
		}
	}
	return true;
}

inline std::string plan_to_string(Plan const& p) {
	std::ostringstream s;
	s << "PLAN seed=" << p.seed << " reuse=" << (p.knobs.reuse ? 1 : 0) << " chunk_r=" << p.knobs.chunk_r << " chunk_w=" << p.knobs.chunk_w << "\n";
	for(auto const& o : p.ops) s << op_to_string(o) << "\n";
	return s.str();
}

inline bool parse_plan(std::string const& text, Plan& p, std::string& err) {
	p = Plan{};
	std::istringstream in(text);
	std::string        line;
	while(std::getline(in, line)) {
		if(line.empty() || line[0] == '#') continue;
		if(line.rfind("PLAN", 0) == 0) {
			std::istringstream ls(line);
			std::string        tok;
			ls >> tok;
			while(ls >> tok) {
				std::size_t eq = tok.find('=');
				if(eq == std::string::npos) continue;
				std::string k = tok.substr(0, eq), val = tok.substr(eq + 1);
				if(k == "seed") p.seed = std::strtoull(val.c_str(), nullptr, 10);
				else if(k == "reuse") p.knobs.reuse = std::atoi(val.c_str()) != 0;
				else if(k == "chunk_r") p.knobs.chunk_r = std::atoi(val.c_str());
				else if(k == "chunk_w") p.knobs.chunk_w = std::atoi(val.c_str());
			}
			continue;
		}
		Op o;
		if(!parse_op(line, o, err)) return false;
		p.ops.push_back(o);
	}
	return true;
}

}  // namespace sim
