// Serialization operations (C17): real Boost.Serialization archives over the simulated stream layer.
#pragma once
#include <boost/archive/binary_iarchive.hpp>
#include <boost/archive/binary_oarchive.hpp>
#include <boost/archive/text_iarchive.hpp>
#include <boost/archive/text_oarchive.hpp>
#include <boost/archive/xml_iarchive.hpp>
#include <boost/archive/xml_oarchive.hpp>
#include <boost/serialization/nvp.hpp>
#include <boost/serialization/string.hpp>

#include <istream>
#include <ostream>

#include "exec.hpp"
#include "stream.hpp"

namespace sim {

// an element that is itself an array (nested array coverage), wrapped for the same reason as StrElem
struct NestElem {
	boost::multi::array<int, 1, zallocator<int>> a;  // zeroed storage: see zallocator
	friend bool operator==(NestElem const& x, NestElem const& y) { return x.a == y.a; }
	friend bool operator!=(NestElem const& x, NestElem const& y) { return !(x.a == y.a); }
};
template<> struct elem_traits<NestElem> {
	using E    = NestElem;
	using conv = NestElem;
	static constexpr bool tracked = false, throwing_move = false, trivial = false;
	static auto make(i64 v) -> E {
		if(v == 0) return E{};
		return E{boost::multi::array<int, 1, zallocator<int>>(boost::multi::extensions_t<1>{static_cast<boost::multi::size_t>(1 + (v % 3 + 3) % 3)}, static_cast<int>(v))};
	}
	static auto make_conv(i64 v) -> conv { return make(v); }
	static auto read(E const& e, bool& ok) -> i64 {
		if(e.a.size() == 0) return 0;
		(void)ok;
		i64 const v = e.a[0];
		if(e.a.size() != 1 + (v % 3 + 3) % 3) return -3;  // malformed (only possible after an injected stream fault)
		for(auto const& x : e.a)
			if(x != v) return -3;
		return v;
	}
	static void write(E& e, i64 v) { e = make(v); }
	static constexpr i64 value_init = 0;
};

// the instrumented element type serializes its value
template<class Archive, bool N, bool A> void serialize(Archive& ar, TrackedT<N, A>& t, unsigned /*version*/) { ar& boost::serialization::make_nvp("v", t.v); }
template<class Archive> void serialize(Archive& ar, Triv& t, unsigned /*version*/) { ar& boost::serialization::make_nvp("v", t.v); }
template<class Archive> void serialize(Archive& ar, StrElem& t, unsigned /*version*/) { ar& boost::serialization::make_nvp("s", t.s); }
template<class Archive> void serialize(Archive& ar, NestElem& t, unsigned /*version*/) { ar& boost::serialization::make_nvp("a", t.a); }

template<class Obj> void save_object(std::vector<char>& bytes, int arch, Obj& obj) {
	membuf       mb(&bytes, 0);
	std::ostream os(&mb);
	switch(arch) {
	case 0: {
		boost::archive::text_oarchive oa(os);
		oa << boost::serialization::make_nvp("obj", obj);
	} break;
	case 1: {
		boost::archive::binary_oarchive oa(os);
		oa << boost::serialization::make_nvp("obj", obj);
	} break;
	default: {
		// no_header: Boost's xml_iarchive destructor otherwise throws from a destructor on a truncated stream (Boost's behaviour, not multi's)
		boost::archive::xml_oarchive oa(os, boost::archive::no_header);
		oa << boost::serialization::make_nvp("obj", obj);
	} break;
	}
	os.flush();
	if(!os) throw boost::archive::archive_exception(boost::archive::archive_exception::output_stream_error);
}

template<class Obj> void load_object(std::vector<char>& bytes, int arch, int chunk_r, Obj& obj) {
	membuf       mb(&bytes, chunk_r);
	std::istream is(&mb);
	switch(arch) {
	case 0: {
		boost::archive::text_iarchive ia(is);
		ia >> boost::serialization::make_nvp("obj", obj);
	} break;
	case 1: {
		boost::archive::binary_iarchive ia(is);
		ia >> boost::serialization::make_nvp("obj", obj);
	} break;
	default: {
		boost::archive::xml_iarchive ia(is, boost::archive::no_header);
		ia >> boost::serialization::make_nvp("obj", obj);
	} break;
	}
}

template<class Cfg>
bool Exec<Cfg>::ser_save(Op const& op) {
	bool              handled = true;
	std::vector<char> bytes;
	if constexpr(HAS_D0) {
		if(op.da == 0) {
			Arr0& a = pool0_.at(op.a);
			{
				OpScope s;
				save_object(bytes, op.arch, a);
			}
			file_bytes_[op.file] = bytes;
			return true;
		}
	}
	if(op.var == 0 || op.var == 2) {
		handled = with_dim(op.da, [&](auto Dc) {
			constexpr int D = decltype(Dc)::value;
			Arr<D>&       a = pool<D>().at(op.a);
			if constexpr(!Cfg::static_arrays) {
				if(op.var == 2) reindex_all<D>(a, 1);  // the same value under index base 1 (restored below)
			}
			struct Restore {
				Arr<D>& a;
				bool    on;
				~Restore() {
					if constexpr(!Cfg::static_arrays) { if(on) reindex_all<D>(a, 0); }
				}
			} restore{a, op.var == 2};
			OpScope s;
			save_object(bytes, op.arch, a);
		});
	} else {
		AV av;
		if(!real_view(op.da, op.a, op.ca, av)) return false;
		handled = dispatch_dim(av.D, [&](auto Dc) {
			constexpr int D = decltype(Dc)::value;
			auto          v = av.template make<D>();
			if constexpr(D >= 1) {  // (D = 1: its own specialisation, which could not be saved at all before fix 00b610f)
				if(op.var == 3) {  // through the read-only view type, which has its own serialize member
					auto& cv = static_cast<multi::const_subarray<E, D, P>&>(v);
					OpScope s;
					save_object(bytes, op.arch, cv);
					return;
				}
			}
			OpScope       s;
			save_object(bytes, op.arch, v);
		});
	}
	file_bytes_[op.file] = bytes;
	return handled;
}

template<class Cfg>
bool Exec<Cfg>::ser_load(Op const& op) {
	bool               handled = true;
	std::vector<char>& bytes   = file_bytes_[op.file];
	MFile const&       f       = M.files[op.file];
	if(chunk_r_ == 1) probe(P_STREAM_CHUNK1);
	if constexpr(HAS_D0) {
		if(op.da == 0) {
			Arr0&   a = pool0_.at(op.a);
			OpScope s;
			load_object(bytes, f.arch, chunk_r_, a);
			return true;
		}
	}
	if(f.is_array) {
		handled = with_dim(op.da, [&](auto Dc) {
			constexpr int D = decltype(Dc)::value;
			Arr<D>&       a = pool<D>().at(op.a);
			if constexpr(!Cfg::static_arrays) {
				if(op.var == 1) reindex_all<D>(a, 1);  // the loading array has the index base 1 in every dimension (restored below)
			}
			struct Restore {  // a file saved under index base 1 loads an array with base 1: the harness works zero-based
				Arr<D>& a;
				bool    on;
				~Restore() {
					if constexpr(!Cfg::static_arrays) { if(on) reindex_all<D>(a, 0); }
				}
			} restore{a, f.base != 0 || op.var == 1};
			{
				OpScope s;
				load_object(bytes, f.arch, chunk_r_, a);
			}
			// "equal to the original in extents": the index base of every dimension is part of the saved extents
			if(a.num_elements() != 0) {
				bool bases_ok = true;
				for(int k = 0; k < D; ++k) bases_ok = bases_ok && static_cast<int>(a.extension(k).first()) == f.base;
				if(!bases_ok) fail("I4-extents", "the loaded array does not have the index base (" + std::to_string(f.base) + ") of the saved one");
			}
		});
	} else {
		AV av;
		if(!real_view(op.da, op.a, op.ca, av)) return false;
		handled = dispatch_dim(av.D, [&](auto Dc) {
			constexpr int D = decltype(Dc)::value;
			auto          v = av.template make<D>();
			OpScope       s;
			load_object(bytes, f.arch, chunk_r_, v);
		});
	}
	return handled;
}

}  // namespace sim
