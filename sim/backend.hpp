// A backend = one build-time configuration of the executor, compiled in its own translation unit.
#pragma once
#include "exec.hpp"
#include "realops.hpp"
#ifdef MSIM_SERIALIZATION
#include "ser_ops.hpp"
#endif
#ifdef MSIM_MPI
#include "mpi_ops.hpp"
#endif

namespace sim {


template<class Cfg> RunResult backend_run(Plan const& p) {
	static Exec<Cfg> ex;
	return ex.run(p);
}
template<class Cfg> ModelTraits backend_traits() {
	Exec<Cfg>* e = nullptr;
	(void)e;
	ModelTraits T;
	using ET        = elem_traits<typename Cfg::elem>;
	T.trivial       = ET::trivial;
	T.serialization = Cfg::serialization;
		T.tracked       = ET::tracked;
		T.mpi           = Cfg::mpi;
		T.ctor_default_inits = Cfg::default_init;
	T.pocca         = Cfg::pocca;
	T.pocma         = Cfg::pocma;
	T.pocs          = Cfg::pocs;
	T.soccc_default = Cfg::soccc_default;
	T.fancy         = Cfg::fancy;
	T.dmin          = Cfg::dmin;
	T.dmax          = Cfg::dmax;
	T.static_arrays = Cfg::static_arrays;
	T.throwing_move = ET::throwing_move;
	T.always_equal  = Cfg::always_equal;
	T.tracked_is_triv = std::is_same_v<typename Cfg::elem, Triv>;
	T.assign_throws   = std::is_same_v<typename Cfg::elem, TrivA>;
	return T;
}

// generic configuration over sim::allocator
template<class Elem, class AC, int DMin, int DMax, bool Static = false, bool Ser = false, bool Mpi = false>
struct SimCfg {
	using elem  = Elem;
	using alloc = sim::allocator<Elem, AC>;
	template<int D> using array_t = std::conditional_t<Static, boost::multi::static_array<Elem, D, alloc>, boost::multi::array<Elem, D, alloc>>;
	template<int D> struct array_t_lazy { using type = boost::multi::array<Elem, D, alloc>; };
	static constexpr bool pocca = AC::pocca, pocma = AC::pocma, pocs = AC::pocs, soccc_default = AC::soccc_default, fancy = AC::fancy;
	static constexpr int  dmin = DMin, dmax = DMax;
	static constexpr bool static_arrays = Static;
	static constexpr bool serialization = Ser;
	static constexpr bool mpi = Mpi;
	static constexpr bool default_init = AC::default_init;
	static constexpr bool always_equal = AC::always_equal;
	static auto make_alloc(int arena) -> alloc { return alloc{arena}; }
	static int  arena_of(alloc const& a) { return a.arena; }
	static void setup() {}
};

// the DEFAULT allocator: multi::array<T, D> over std::allocator<T>.  The library has overloads that are chosen for std::allocator
// only (detail/adl.hpp: alloc_uninitialized_copy_n / alloc_uninitialized_copy forward to the adl_ / std:: algorithms and the
// multidimensional uninitialized_copy), so this is code no backend over sim::allocator executes.  The global operator new/delete
// of the worker (main.cpp) serve library-side allocations from arena 0, which makes every block a ledger block with guard zones
// and makes ALLOC_FAIL injectable.  Model: one arena, is_always_equal, propagate_on_container_move_assignment (what std::allocator is).
template<class Elem, int DMin, int DMax, bool Static = false>
struct HeapCfg {
	using elem  = Elem;
	using alloc = std::allocator<Elem>;
	template<int D> using array_t = std::conditional_t<Static, boost::multi::static_array<Elem, D>, boost::multi::array<Elem, D>>;
	template<int D> struct array_t_lazy { using type = boost::multi::array<Elem, D>; };
	static constexpr bool pocca = false, pocma = true, pocs = false, soccc_default = false, fancy = false;
	static constexpr int  dmin = DMin, dmax = DMax;
	static constexpr bool static_arrays = Static;
	static constexpr bool serialization = false;
	static constexpr bool mpi = false;
	static constexpr bool default_init = false;
	static constexpr bool always_equal = true;
	static auto make_alloc(int /*arena*/) -> alloc { return alloc{}; }
	static int  arena_of(alloc const& /*a*/) { return 0; }
	static void setup() { W.heap_route = true; }
};

}  // namespace sim

#define MSIM_DEFINE_BACKEND(ident, label, ...)                                                        \
	namespace sim {                                                                                   \
	Backend const& backend_##ident() {                                                                \
		static Backend const b{label, backend_traits<__VA_ARGS__>(), &backend_run<__VA_ARGS__>, &__VA_ARGS__::setup}; \
		return b;                                                                                     \
	}                                                                                                 \
	}
