// The real side of every operation: calls into boost-multi exactly as a user would.
// Everything between OpScope's construction and destruction counts as "inside the library operation".
#pragma once
#include <initializer_list>
#include <new>
#include <utility>
#include <vector>

#include "exec.hpp"

namespace sim {

// the harness builds a library object (over the backend's allocator) that the operation under test will take over: with the global
// heap as seam its storage must come from the ledger too, but outside the operation scope (no events, no fault point)
struct HeapScope {
	bool on = true;
	HeapScope() { ++W.force_route; }
	void end() { if(on) { --W.force_route; on = false; } }
	~HeapScope() { end(); }
	HeapScope(HeapScope const&) = delete;
	auto operator=(HeapScope const&) -> HeapScope& = delete;
};
struct OpScope {
	OpScope() { W.begin_op(); }
	~OpScope() { W.end_op(); }
	OpScope(OpScope const&) = delete;
	auto operator=(OpScope const&) -> OpScope& = delete;
};

// nested initializer lists can only be spelled with static shapes
#define MSIM_ROW1(k) {e[k]}
#define MSIM_ROW2(k) {e[k], e[(k) + 1]}
#define MSIM_ROW3(k) {e[k], e[(k) + 1], e[(k) + 2]}
#define MSIM_IL1(n, ACTION)                                                      \
	switch(n) {                                                                  \
	case 1: ACTION({e[0]}); break;                                               \
	case 2: ACTION({e[0], e[1]}); break;                                         \
	case 3: ACTION({e[0], e[1], e[2]}); break;                                   \
	case 4: ACTION({e[0], e[1], e[2], e[3]}); break;                             \
	case 5: ACTION({e[0], e[1], e[2], e[3], e[4]}); break;                       \
	case 6: ACTION({e[0], e[1], e[2], e[3], e[4], e[5]}); break;                 \
	default: handled = false; break;                                             \
	}
#define MSIM_IL2(o, i, ACTION)                                                   \
	switch((o) * 10 + (i)) {                                                     \
	case 11: ACTION({MSIM_ROW1(0)}); break;                                      \
	case 12: ACTION({MSIM_ROW2(0)}); break;                                      \
	case 13: ACTION({MSIM_ROW3(0)}); break;                                      \
	case 21: ACTION({MSIM_ROW1(0), MSIM_ROW1(1)}); break;                        \
	case 22: ACTION({MSIM_ROW2(0), MSIM_ROW2(2)}); break;                        \
	case 23: ACTION({MSIM_ROW3(0), MSIM_ROW3(3)}); break;                        \
	case 31: ACTION({MSIM_ROW1(0), MSIM_ROW1(1), MSIM_ROW1(2)}); break;          \
	case 32: ACTION({MSIM_ROW2(0), MSIM_ROW2(2), MSIM_ROW2(4)}); break;          \
	case 33: ACTION({MSIM_ROW3(0), MSIM_ROW3(3), MSIM_ROW3(6)}); break;          \
	default: handled = false; break;                                             \
	}
#define MSIM_IL3(a, b, c, ACTION)                                                                         \
	switch((a) * 100 + (b) * 10 + (c)) {                                                                  \
	case 222: ACTION({{MSIM_ROW2(0), MSIM_ROW2(2)}, {MSIM_ROW2(4), MSIM_ROW2(6)}}); break;               \
	case 123: ACTION({{MSIM_ROW3(0), MSIM_ROW3(3)}}); break;                                              \
	case 212: ACTION({{MSIM_ROW2(0)}, {MSIM_ROW2(2)}}); break;                                            \
	default: handled = false; break;                                                                      \
	}

// zero-dimensional arrays: their own small operation set
// re-indexes every dimension of an owning array to the given base (layout only; elements and storage stay)
template<int D, class A, std::size_t... I> void reindex_all_impl(A& a, int base, std::index_sequence<I...>) { a.reindex(((void)I, static_cast<boost::multi::index>(base))...); }
template<int D, class A> void reindex_all(A& a, int base) { reindex_all_impl<D>(a, base, std::make_index_sequence<D>{}); }

template<class Cfg>
bool Exec<Cfg>::run_real_d0(Op const& op) {
	if constexpr(HAS_D0) {
		void*   raw = pool0_.raw(op.a);
		A const al  = Cfg::make_alloc(op.ar);
		E const val = ET::make(op.v);
		switch(op.kind) {
		case O_CTOR_DEFAULT: { OpScope s; new(raw) Arr0(); } return true;
		case O_CTOR_EXT: { OpScope s; if(op.var & 1) new(raw) Arr0(multi::extensions_t<0>{}, al); else new(raw) Arr0(multi::extensions_t<0>{}); } return true;
		case O_CTOR_EXT_ELEM: { OpScope s; if(op.var & 1) new(raw) Arr0(val, al); else new(raw) Arr0(val); } return true;
		case O_CTOR_COPY: { Arr0 const& b = pool0_.at(op.b); OpScope s; new(raw) Arr0(b); } return true;
		case O_CTOR_MOVE: { Arr0& b = pool0_.at(op.b); OpScope s; new(raw) Arr0(std::move(b)); } return true;
		case O_DESTROY: { Arr0& a = pool0_.at(op.a); OpScope s; a.~Arr0(); } return true;
		case O_ASSIGN_COPY: { Arr0& a = pool0_.at(op.a); Arr0 const& b = pool0_.at(op.b); OpScope s; a = b; } return true;
		case O_ASSIGN_MOVE: { Arr0& a = pool0_.at(op.a); Arr0& b = pool0_.at(op.b); OpScope s; a = std::move(b); } return true;
		case O_ASSIGN_SELF: { Arr0& a = pool0_.at(op.a); Arr0 const& r = a; OpScope s; a = r; } return true;
		case O_ELEM_WRITE: { Arr0& a = pool0_.at(op.a); OpScope s; a = val; } return true;
		case O_READ: {
			Arr0 const& a  = pool0_.at(op.a);
			bool        ok = true;
			i64         got;
			{ OpScope s; got = ET::read(static_cast<E const&>(a), ok); }
			if(!ok) fail("LIFE-use-of-dead", "a zero-dimensional array converts to an element that is not alive");
			else if(M.at(0, op.a).v.size() != 1 || got != M.at(0, op.a).v[0]) fail("V-value", "conversion of a zero-dimensional array to its element yields another value");
		} return true;
		default: return false;
		}
	} else {
		(void)op;
		return false;
	}
}

template<class Cfg>
bool Exec<Cfg>::run_real(Op const& op) {
	bool handled = true;
	if(op.da == 0 && op.kind != O_SAVE && op.kind != O_LOAD && op.kind != O_MSG_PACK && op.kind != O_MSG_XFER) return run_real_d0(op);
	auto fill_values = [&](std::vector<E, hallocator<E>>& e, std::size_t n, i64 base) {
		e.reserve(n);
		for(std::size_t k = 0; k < n; ++k) e.push_back(ET::make(base + static_cast<i64>(k)));
	};

	switch(op.kind) {
	// =========================================================== construction / destruction
	case O_CTOR_DEFAULT: case O_CTOR_ALLOC: case O_CTOR_EXT: case O_CTOR_EXT_ELEM: case O_CTOR_COPY: case O_CTOR_COPY_ALLOC:
	case O_CTOR_MOVE: case O_CTOR_MOVE_ALLOC: case O_CTOR_VIEW: case O_CTOR_RANGE: case O_CTOR_IL: case O_CTOR_CONV: case O_DECAY: case O_DESTROY:
		handled = with_dim(op.da, [&](auto Dc) {
			constexpr int D   = decltype(Dc)::value;
			void*         raw = pool<D>().raw(op.a);
			A const       al  = Cfg::make_alloc(op.ar);
			switch(op.kind) {
			case O_CTOR_DEFAULT: { OpScope s; new(raw) Arr<D>(); } break;
			case O_CTOR_ALLOC: { OpScope s; new(raw) Arr<D>(al); } break;
			case O_CTOR_EXT: {
				auto const x = make_exts<D>(op.x);
				OpScope    s;
				if(op.var & 1) new(raw) Arr<D>(x, al);
				else new(raw) Arr<D>(x);
			} break;
			case O_CTOR_EXT_ELEM: {
				auto const x   = make_exts<D>(op.x);
				E const    val = ET::make(op.v);
				OpScope    s;
				if(op.var & 1) new(raw) Arr<D>(x, val, al);
				else new(raw) Arr<D>(x, val);
			} break;
			case O_CTOR_COPY:
				if(op.var == 1) {  // from a temporary array_ref over the storage of b: the elements are copied, the referenced storage keeps its values
					Arr<D>& b = pool<D>().at(op.b);
					OpScope s;
					new(raw) Arr<D>(multi::array_ref<E, D, P>(b.data_elements(), b.extensions()));
					break;
				}
				{ Arr<D> const& b = pool<D>().at(op.b); OpScope s; new(raw) Arr<D>(b); } break;
			case O_CTOR_COPY_ALLOC: { Arr<D> const& b = pool<D>().at(op.b); OpScope s; new(raw) Arr<D>(b, al); } break;
			case O_CTOR_MOVE:
				if(op.var == 1) {
					if constexpr(Cfg::static_arrays) {
						using Dyn = typename Cfg::template array_t_lazy<D>::type;
						HeapScope hs;
						Dyn tmp(make_exts<D>(op.x), ET::make(op.v), al);
						hs.end();
						for(long k = 0; k < static_cast<long>(tmp.num_elements()); ++k) ET::write(tmp.data_elements()[k], op.v + k);
						OpScope s;
						new(raw) Arr<D>(std::move(tmp));
					} else handled = false;
					break;
				}
				{ Arr<D>& b = pool<D>().at(op.b); OpScope s; new(raw) Arr<D>(std::move(b)); } break;
			case O_CTOR_MOVE_ALLOC:
				if constexpr(!Cfg::static_arrays) { Arr<D>& b = pool<D>().at(op.b); OpScope s; new(raw) Arr<D>(std::move(b), al); }
				break;
			case O_CTOR_VIEW: case O_CTOR_RANGE: case O_DECAY: {
				AV av;
				if(!real_view(op.db, op.b, op.cb, av) || av.D != D) { handled = false; break; }
				auto        sv  = av.template make<D>();
				auto const& csv = static_cast<multi::const_subarray<E, D, P> const&>(sv);
				if(op.kind == O_CTOR_VIEW) {
					OpScope s;
					if((op.var & 3) == 0) new(raw) Arr<D>(csv);
					else if((op.var & 3) == 1) new(raw) Arr<D>(csv, al);
					else if((op.var & 3) == 2) new(raw) Arr<D>(std::move(sv));
					else new(raw) Arr<D>(std::move(sv), al);
				} else if(op.kind == O_CTOR_RANGE) {
					OpScope s;
					if(op.var & 1) new(raw) Arr<D>(csv.begin(), csv.end(), al);
					else new(raw) Arr<D>(csv.begin(), csv.end());
				} else {
					if(op.var == 2) {
						if constexpr(!Cfg::static_arrays) {
							bool ok2 = with_dim(op.db, [&](auto Db) {
								if constexpr(decltype(Db)::value == D) {
									Arr<D> const& b = pool<D>().at(op.b);
									OpScope       s;
									new(raw) Arr<D>(+b);
								}
							});
							(void)ok2;
						}
					} else {
						if constexpr(Cfg::fancy) {
							// the value type of a view over a fancy pointer must live in storage of that pointer's default allocator
							using DT = decltype(csv.decay());
							if(!std::is_same_v<typename std::allocator_traits<typename DT::allocator_type>::pointer, P>) fail("PTR-decay-type", "decay() of a view over the fancy pointer yields an array over another pointer type (pointer_traits::default_allocator_type is not honoured)");
							// the same for a view over the pointer-to-const of the family (array_ref over ptr<T const>)
							using CP  = typename std::pointer_traits<P>::template rebind<E const>;
							using DTc = std::decay_t<decltype(std::declval<multi::array_ref<E, D, CP>&>().decay())>;
							if(!std::is_same_v<typename std::allocator_traits<typename DTc::allocator_type>::pointer, P>)
								fail("PTR-decay-type", "decay() of a view over the fancy pointer-to-const yields an array over another pointer type (pointer_traits::default_allocator_type is not honoured)");
						}
						OpScope s;
						if(op.var == 0) new(raw) Arr<D>(csv.decay());
						else new(raw) Arr<D>(+csv);
					}
				}
			} break;
			case O_CTOR_IL: {
				std::vector<E, hallocator<E>> e;
				fill_values(e, 12, op.v);
				bool const wa = (op.var & 1) != 0;
				// the nested list is the caller's argument: it is built before the operation starts
				using CVT = typename multi::static_array<E, D>::value_type;
#define MSIM_ACT(...) do { std::initializer_list<CVT> il = __VA_ARGS__; OpScope s; if(wa) new(raw) Arr<D>(il, al); else new(raw) Arr<D>(il); } while(0)
				if constexpr(D == 1) { MSIM_IL1(op.x[0], MSIM_ACT) }
				else if constexpr(D == 2) { MSIM_IL2(op.x[0], op.x[1], MSIM_ACT) }
				else if constexpr(D == 3) { MSIM_IL3(op.x[0], op.x[1], op.x[2], MSIM_ACT) }
				else handled = false;
#undef MSIM_ACT
			} break;
			case O_CTOR_CONV: {
				CArr<D> src(make_exts<D>(op.x));
				for(long k = 0; k < static_cast<long>(src.num_elements()); ++k) src.data_elements()[k] = ET::make_conv(op.v + k);
				int const  form = (op.var >> 1) & 7;
				bool const wa   = (op.var & 1) != 0;
				auto const& csrc = src;
				OpScope    s;
				if(form == 3) new(raw) Arr<D>(src);
				else if(form == 4) new(raw) Arr<D>(std::move(src));
				else if(form == 0) { if(wa) new(raw) Arr<D>(csrc, al); else new(raw) Arr<D>(csrc); }
				else if(form == 1) { if(wa) new(raw) Arr<D>(csrc(), al); else new(raw) Arr<D>(csrc()); }
				else {
					if constexpr(D >= 2) { if(wa) new(raw) Arr<D>(csrc.transposed(), al); else new(raw) Arr<D>(csrc.transposed()); }
				}
			} break;
			case O_DESTROY: { Arr<D>& a = pool<D>().at(op.a); OpScope s; a.~Arr<D>(); } break;
			default: handled = false; break;
			}
		}) && handled;
		break;

	// =========================================================== operations on an existing owning array
	case O_ASSIGN_COPY: case O_ASSIGN_MOVE: case O_SWAP: case O_ASSIGN_SELF: case O_ASSIGN_VIEW: case O_ASSIGN_ITER: case O_ASSIGN_RANGE: case O_FROM:
	case O_ASSIGN_CONV: case O_ASSIGN_IL: case O_ASSIGN_IL_EMPTY: case O_CLEAR: case O_REEXTENT: case O_REEXTENT_FILL: case O_REEXTENT_MOVE: case O_RESHAPE: case O_ELEM_WRITE:
		handled = with_dim(op.da, [&](auto Dc) {
			constexpr int D = decltype(Dc)::value;
			Arr<D>&       a = pool<D>().at(op.a);
			switch(op.kind) {
			case O_ASSIGN_COPY:
				if(op.var == 1) {  // the source has index base 1 in every dimension (restored below): "extents ... equal the source's" includes the bases,
					// also when the sizes of target and source agree (seeded C04-r7-m2)
					if constexpr(!Cfg::static_arrays) {
						Arr<D>& b = pool<D>().at(op.b);
						reindex_all<D>(b, 1);
						struct Restore {
							Arr<D>& a;
							Arr<D>& b;
							~Restore() {
								reindex_all<D>(b, 0);
								if(a.num_elements() != 0 && a.extension().first() != 0) reindex_all<D>(a, 0);
							}
						} restore{a, b};
						{ OpScope s; a = static_cast<Arr<D> const&>(b); }
						bool bases_ok = a.num_elements() != 0;
						for(int k = 0; k < D && bases_ok; ++k) bases_ok = static_cast<int>(a.extension(k).first()) == 1;
						if(!bases_ok) fail("I4-extents", "after copy assignment the target does not have the index base (1) of its source");
					} else handled = false;
				} else { Arr<D> const& b = pool<D>().at(op.b); OpScope s; a = b; }
				break;
			case O_ASSIGN_MOVE: { Arr<D>& b = pool<D>().at(op.b); OpScope s; a = std::move(b); } break;
			case O_SWAP: {
				Arr<D>& b = pool<D>().at(op.b);
				OpScope s;
				if constexpr(Cfg::static_arrays) { using std::swap; swap(a, b); }
				else { if(op.var == 0) a.swap(b); else { using std::swap; swap(a, b); } }
			} break;
			case O_ASSIGN_SELF: {
				Arr<D>& r = a;
				OpScope s;
				if(op.var == 0) a = static_cast<Arr<D> const&>(r);
				else a = std::move(r);
			} break;
			case O_ASSIGN_VIEW: case O_ASSIGN_ITER: case O_ASSIGN_RANGE: case O_FROM: {
				AV av;
				if(!real_view(op.db, op.b, op.cb, av) || av.D != D) { handled = false; break; }
				auto        sv  = av.template make<D>();
				auto const& csv = static_cast<multi::const_subarray<E, D, P> const&>(sv);
				OpScope     s;
				if(op.kind == O_ASSIGN_VIEW) { if(op.var == 0) a = csv; else a = std::move(sv); }
				else if constexpr(!Cfg::static_arrays) {
					if(op.kind == O_ASSIGN_ITER) a.assign(csv.begin(), csv.end());
					else if(op.kind == O_ASSIGN_RANGE) a.assign(csv);
					else a.from(csv);
				}
			} break;
			case O_ASSIGN_CONV: {
				CArr<D> src(make_exts<D>(op.x));
				for(long k = 0; k < static_cast<long>(src.num_elements()); ++k) src.data_elements()[k] = ET::make_conv(op.v + k);
				int const   form = (op.var >> 1) & 3;
				auto const& csrc = src;
				OpScope     s;
				if(form == 0) a = csrc;
				else if(form == 1) a = csrc();
				else { if constexpr(D >= 2) a = csrc.transposed(); }
			} break;
			case O_ASSIGN_IL:
				if constexpr(!Cfg::static_arrays) {
					std::vector<E, hallocator<E>> e;
					fill_values(e, 12, op.v);
					using AVT = typename Arr<D>::value_type;
#define MSIM_ACT(...) do { std::initializer_list<AVT> il = __VA_ARGS__; OpScope s; a = il; } while(0)
					if constexpr(D == 1) { MSIM_IL1(op.x[0], MSIM_ACT) }
					else if constexpr(D == 2) { MSIM_IL2(op.x[0], op.x[1], MSIM_ACT) }
					else if constexpr(D == 3) { MSIM_IL3(op.x[0], op.x[1], op.x[2], MSIM_ACT) }
					else handled = false;
#undef MSIM_ACT
				}
				break;
			case O_ASSIGN_IL_EMPTY: if constexpr(!Cfg::static_arrays) { OpScope s; a = {}; } break;
			case O_CLEAR: if constexpr(!Cfg::static_arrays) { OpScope s; a.clear(); } break;
			case O_REEXTENT: case O_REEXTENT_FILL: case O_REEXTENT_MOVE:
				if constexpr(!Cfg::static_arrays) {
					auto const x   = make_exts<D>(op.x);
					E const    val = ET::make(op.v);
					bool const noop = eff.expect_no_elem_events;
					if(noop) {
						// a view and an iterator obtained before the call must stay valid
						auto&& held = a();
						auto   it   = a.begin();
						{
							OpScope s;
							if(op.kind == O_REEXTENT) a.reextent(x);
							else if(op.kind == O_REEXTENT_FILL) a.reextent(x, val);
							else std::move(a).reextent(x);
						}
						std::vector<i64> got, first;
						bool             ok = true;
						read_brackets<ET>(static_cast<multi::const_subarray<E, D, P> const&>(held), got, ok);
						if(!ok || got != M.at(D, op.a).v) fail("P-view-invalidated", "a view obtained before reextent to the current extents no longer reads the array's elements");
						if constexpr(D == 1) first.push_back(ET::read(*it, ok));
						else read_brackets<ET>(*it, first, ok);
						if(!ok || !std::equal(first.begin(), first.end(), M.at(D, op.a).v.begin())) fail("P-view-invalidated", "an iterator obtained before reextent to the current extents no longer reads the array's elements");
						probe(P_HELD_VIEW_CHECKED);
					} else if(op.var == 1) {
						// the same array under index base 1 in every dimension: old extents [1, 1+n), new extents [0, x)
						reindex_all<D>(a, 1);
						struct Restore {  // a failed reextent leaves the array as it was, i.e. one-based: the harness works zero-based
							Arr<D>& a;
							~Restore() {
								if(a.num_elements() != 0 && a.extension().first() != 0) reindex_all<D>(a, 0);
							}
						} restore{a};
						OpScope s;
						if(op.kind == O_REEXTENT) a.reextent(x);
						else a.reextent(x, val);
					} else {
						OpScope s;
						if(op.kind == O_REEXTENT) a.reextent(x);
						else if(op.kind == O_REEXTENT_FILL) a.reextent(x, val);
						else std::move(a).reextent(x);
					}
				}
				break;
			case O_RESHAPE: if constexpr(!Cfg::static_arrays) { auto const x = make_exts<D>(op.x); OpScope s; a.reshape(x); } break;
			case O_ELEM_WRITE: {
				E const val = ET::make(op.v);
				// the first and the last element are also reachable as elements().front() / .back() of a named flat range: same
				// element, other access path (chosen by the value written, no PRNG draw)
				bool last = true, first = true;
				for(int k = 0; k < D; ++k) { last = last && op.x[k] == M.at(D, op.a).n[k] - 1; first = first && op.x[k] == 0; }
				OpScope s;
				if constexpr(D >= 2) {
					if(last && ((op.v / 1000) & 1) != 0) { auto&& els = a().elements(); els.back() = val; break; }
					if(first && ((op.v / 1000) & 1) != 0) { auto&& els = a().elements(); els.front() = val; break; }
				}
				elem_at(a, op.x) = val;
			} break;
			default: handled = false; break;
			}
		}) && handled;
		break;

	// =========================================================== writes through views
	case O_VASSIGN_VIEW: case O_VSWAP: case O_VASSIGN_ARRAY: case O_VASSIGN_CONV: case O_VASSIGN_RANGE: case O_VASSIGN_IL: case O_VFILL: case O_EASSIGN_IL: {
		AV dav;
		if(!real_view(op.da, op.a, op.ca, dav)) return false;
		handled = dispatch_dim(dav.D, [&](auto Dc) {
			constexpr int D  = decltype(Dc)::value;
			auto          dv = dav.template make<D>();
			switch(op.kind) {
			case O_VASSIGN_VIEW: case O_VSWAP: {
				AV sav;
				if(!real_view(op.db, op.b, op.cb, sav) || sav.D != D) { handled = false; break; }
				auto        sv  = sav.template make<D>();
				auto const& csv = static_cast<multi::const_subarray<E, D, P> const&>(sv);
				OpScope     s;
				if(op.kind == O_VSWAP) {
					if(op.var == 0) std::move(dv).swap(std::move(sv));
					else if(op.var == 1) swap(std::move(dv), std::move(sv));
					else if(op.var == 2) {  // two named views, the idiomatic call
						using std::swap;
						swap(dv, sv);
					} else if(op.var == 3) {  // the mixed value categories (each its own overload): a temporary view with a named one ...
						using std::swap;
						swap(std::move(dv), sv);
					} else {  // ... and the other way round
						using std::swap;
						swap(dv, std::move(sv));
					}
				} else {
					switch(op.var) {
					case 0: dv = csv; break;
					case 1: dv = std::move(sv); break;
					case 2: dv = sv.element_moved(); break;
					case 3: std::move(dv) = csv; break;
					case 4: std::move(dv) = sv.element_moved(); break;
					case 5: std::move(dv) = std::move(sv); break;
					default:
						if constexpr(!Cfg::static_arrays && D >= DMIN && D <= DMAX) {
							Arr<D>& b = pool<D>().at(op.b);
							dv = std::move(b)();  // a whole moved array as source: its elements are moved from
						}
						break;
					}
				}
			} break;
			case O_VASSIGN_ARRAY:
				if constexpr(D >= DMIN && D <= DMAX) {
					Arr<D> const& b = pool<D>().at(op.b);
					OpScope       s;
					dv = b;
				} else handled = false;
				break;
			case O_VASSIGN_CONV: {
				int n[MAXD]{};
				real_sizes<D>(dv, n);
				CArr<D> src(make_exts<D>(n));
				for(long k = 0; k < static_cast<long>(src.num_elements()); ++k) src.data_elements()[k] = ET::make_conv(op.v + k);
				auto const& csrc = src;
				OpScope     s;
				if(op.var == 0) dv = csrc;
				else dv = csrc();
			} break;
			case O_VASSIGN_RANGE: {
				int n[MAXD]{};
				real_sizes<D>(dv, n);
				if constexpr(D == 1) {
					std::vector<E, hallocator<E>> r;
					fill_values(r, static_cast<std::size_t>(n[0]), op.v);
					OpScope s;
					if(op.var == 0) dv = r;
					else dv.assign(r.begin());
				} else if constexpr(D <= 3) {
					std::vector<HArr<D - 1>, hallocator<HArr<D - 1>>> rows;
					long const sub = prod(n + 1, D - 1);
					rows.reserve(static_cast<std::size_t>(n[0]));
					for(int i = 0; i < n[0]; ++i) {
						rows.emplace_back(make_exts<D - 1>(n + 1), ET::make(0));
						for(long k = 0; k < sub; ++k) ET::write(rows.back().data_elements()[k], op.v + i * sub + k);
					}
					OpScope s;
					if(op.var == 0) dv = rows;
					else dv.assign(rows.begin());
				} else handled = false;
			} break;
			case O_VASSIGN_IL: {
				int n[MAXD]{};
				real_sizes<D>(dv, n);
				std::vector<E, hallocator<E>> e;
				fill_values(e, 12, op.v);
				using VT = typename multi::subarray<E, D, P>::value_type;
#define MSIM_ACT(...) do { std::initializer_list<VT> il = __VA_ARGS__; OpScope s; dv = il; } while(0)
				if constexpr(D == 1) { MSIM_IL1(n[0], MSIM_ACT) }
				else if constexpr(D == 2) { MSIM_IL2(n[0], n[1], MSIM_ACT) }
				else if constexpr(D == 3) { MSIM_IL3(n[0], n[1], n[2], MSIM_ACT) }
				else handled = false;
#undef MSIM_ACT
			} break;
			case O_VFILL:
				if(op.var == 0) {
					if constexpr(D == 1) { E const val = ET::make(op.v); OpScope s; dv.fill(val); }
					else handled = false;
				} else {  // every element written through the arithmetic of the flat elements() iterators (seeded C05-r7-m1): a jump from
					// begin() by n, += n on a named iterator, operator[] of the range - each must designate the n-th element of the view
					std::vector<E, hallocator<E>> e;
					long const cnt = static_cast<long>(dv.num_elements());
					fill_values(e, static_cast<std::size_t>(cnt), op.v);
					OpScope s;
					auto&&  els = dv.elements();
					for(long n = 0; n < cnt; ++n) {
						if(op.var == 1) *(els.begin() + n) = e[static_cast<std::size_t>(n)];
						else if(op.var == 2) { auto it = els.begin(); it += n; *it = e[static_cast<std::size_t>(n)]; }
						else if(op.var == 3) els[n] = e[static_cast<std::size_t>(n)];
						else if(op.var == 4) *(els.end() - (cnt - n)) = e[static_cast<std::size_t>(n)];  // counted back from end(): the idiomatic end() - 1
						else if(op.var == 5) { auto it = els.end(); it -= (cnt - n); *it = e[static_cast<std::size_t>(n)]; }
						else if(op.var == 6) { auto it = els.begin(); auto const jt = els.begin() + n; it = jt; *it = e[static_cast<std::size_t>(n)]; }  // an assigned iterator designates what its source designates
						else if(op.var == 7) { long const h = n / 2; (els.begin() + h)[n - h] = e[static_cast<std::size_t>(n)]; }  // a subscript counts from the iterator's own position (seeded C05-r7b-m1) ...
						else els.end()[n - cnt] = e[static_cast<std::size_t>(n)];  // ... also a negative one
					}
				}
				break;
			case O_EASSIGN_IL: {
				std::vector<E, hallocator<E>> e;
				fill_values(e, 6, op.v);
				long const cnt = static_cast<long>(dv.num_elements());
#define MSIM_ACT(...) do { std::initializer_list<E> il = __VA_ARGS__; OpScope s; dv.elements() = il; } while(0)
				MSIM_IL1(cnt, MSIM_ACT)
#undef MSIM_ACT
			} break;
			default: handled = false; break;
			}
		}) && handled;
	} break;

	case O_EASSIGN: {
		AV dav, sav;
		if(!real_view(op.da, op.a, op.ca, dav) || !real_view(op.db, op.b, op.cb, sav)) return false;
		handled = dispatch_dim(dav.D, [&](auto Dc) {
			constexpr int D  = decltype(Dc)::value;
			auto          dv = dav.template make<D>();
			handled = dispatch_dim(sav.D, [&](auto Sc) {
				constexpr int S   = decltype(Sc)::value;
				auto          sv  = sav.template make<S>();
				auto const&   csv = static_cast<multi::const_subarray<E, S, P> const&>(sv);
				OpScope       s;
				if(op.var == 0) dv.elements() = csv.elements();
				else dv.elements() = std::move(sv).elements();
			});
		}) && handled;
	} break;

	// =========================================================== reads
	case O_READ: {
		AV av;
		if(!real_view(op.da, op.a, op.ca, av)) return false;
		MView mv;
		if(!model_view(M, T, op.da, op.a, op.ca, mv)) return false;
		std::vector<i64> want = gather(M.at(op.da, op.a), mv), got;
		bool             ok   = true;
		handled = dispatch_dim(av.D, [&](auto Dc) {
			constexpr int D  = decltype(Dc)::value;
			auto          v  = av.template make<D>();
			auto const&   cv = static_cast<multi::const_subarray<E, D, P> const&>(v);
			int           n[MAXD]{};
			real_sizes<D>(cv, n);
			if(mv.count() > 0) {
				for(int k = 0; k < D; ++k)
					if(n[k] != mv.n[k]) fail("V-extents", "view extents differ from the composition of the documented index mappings");
			} else if(cv.num_elements() != 0) fail("V-extents", "view should be empty");
			if(W.violated() || mv.count() == 0) return;
			got.reserve(want.size() + 1);  // the harness's own vector must not grow inside the operation scope (global heap seam)
			OpScope s;
			if(op.var == 0) read_brackets<ET>(cv, got, ok);
			else if(op.var == 1) read_elements<ET>(cv, got, ok);
			else if(op.var == 2) read_iterators<ET>(cv, got, ok);
			else if(op.var == 5) read_elements_arrow<ET>(cv, got, ok);
			else if constexpr(std::is_same_v<E, Triv>) {
				if(op.var == 3) {
					auto&& rv = v.template reinterpret_array_cast<i64>();
					read_i64(rv, got);
				} else {
					auto&& rv = v.template reinterpret_array_cast<i64>(1);  // one more dimension of extent sizeof(E)/sizeof(i64) = 1
					read_i64(rv, got);
				}
			}
		});
		if(handled && !W.violated() && mv.count() > 0) {
			if(!ok) fail("LIFE-use-of-dead", "a view reads an element that is not alive");
			else if(got != want) fail("V-value", "view elements differ from the composition of the documented index mappings");
		}
	} break;
	case O_REF_ASSIGN:
		handled = with_dim(op.da, [&](auto Dc) {
			constexpr int D = decltype(Dc)::value;
			Arr<D>&       a = pool<D>().at(op.a);
			multi::array_ref<E, D, P> ra(a.data_elements(), a.extensions());
			if(op.var >= 4) {
				using CE = typename ET::conv;
				std::vector<CE, hallocator<CE>> src;
				src.reserve(static_cast<std::size_t>(a.num_elements()));
				for(long k = 0; k < static_cast<long>(a.num_elements()); ++k) src.push_back(ET::make_conv(op.v + k));
				multi::array_ref<CE, D> const rc(src.data(), a.extensions());
				OpScope s;
				if(op.var == 4) std::move(ra) = rc;
				else ra = rc;
				return;
			}
			Arr<D>&       b = pool<D>().at(op.b);
			multi::array_ref<E, D, P> rb(b.data_elements(), b.extensions());
			OpScope s;
			switch(op.var) {
			case 0: ra = static_cast<multi::array_ref<E, D, P> const&>(rb); break;
			case 1: ra = std::move(rb); break;
			case 2: std::move(ra) = static_cast<multi::array_ref<E, D, P> const&>(rb); break;
			default: std::move(ra) = std::move(rb); break;
			}
		});
		break;
	case O_COMPARE: {
		if(op.var == 1) {
			handled = with_dim(op.da, [&](auto Dc) {
				constexpr int D = decltype(Dc)::value;
				Arr<D> const& a = pool<D>().at(op.a);
				Arr<D> const& b = pool<D>().at(op.b);
				MArr const&   ma = M.at(D, op.a);
				MArr const&   mb = M.at(D, op.b);
				bool const    want = ma.same_extents(mb) && ma.v == mb.v;
				bool          eq, ne;
				{
					OpScope s;
					eq = (a == b);
					ne = (a != b);
				}
				if(eq != want || ne == want) fail("V-compare", "operator==/!= between two arrays disagrees with extents-and-elements comparison");
			});
			break;
		}
		AV xa, ya;
		if(!real_view(op.da, op.a, op.ca, xa) || !real_view(op.db, op.b, op.cb, ya) || xa.D != ya.D) return false;
		MView mx, my;
		if(!model_view(M, T, op.da, op.a, op.ca, mx) || !model_view(M, T, op.db, op.b, op.cb, my)) return false;
		bool const want = mx.same_extents(my) && gather(M.at(op.da, op.a), mx) == gather(M.at(op.db, op.b), my);
		handled = dispatch_dim(xa.D, [&](auto Dc) {
			constexpr int D  = decltype(Dc)::value;
			auto          x  = xa.template make<D>();
			auto          y  = ya.template make<D>();
			auto const&   cx = static_cast<multi::const_subarray<E, D, P> const&>(x);
			auto const&   cy = static_cast<multi::const_subarray<E, D, P> const&>(y);
			bool          eq, ne;
			{
				OpScope s;
				eq = (cx == cy);
				ne = (cx != cy);
			}
			if(eq != want || ne == want) fail("V-compare", "operator==/!= between two views disagrees with element-wise comparison");
		});
	} break;
	case O_SAVE:
		if constexpr(Cfg::serialization) handled = ser_save(op);
		else handled = false;
		break;
	case O_LOAD:
		if constexpr(Cfg::serialization) handled = ser_load(op);
		else handled = false;
		break;
	case O_MSG_PACK: case O_MSG_XFER:
		if constexpr(Cfg::mpi) handled = mpi_op(op);
		else handled = false;
		break;
	default: return false;
	}
	return handled;
}

}  // namespace sim
