// Reference model: dumb vectors and explicit offset tables. Shares no code or idea with layout_t.
#pragma once
#include <array>
#include <vector>

#include "plan.hpp"

namespace sim {

inline constexpr int NSLOT  = 5;  // slots per dimensionality
inline constexpr int MAXVD  = 4;  // maximum dimensionality of a view used as an operand

struct MArr {
	bool             alive = false;
	int              D     = 0;
	int              n[MAXD]{};  // extents as requested (all index bases are 0)
	std::vector<i64> v;          // canonical (row-major) order
	int              arena = 0;
	bool             dirty = false;  // target of a failed operation: valid but unspecified
	bool             moved_from = false;  // emptied by a move and not yet given a new value
	bool             exact_empty = false;  // an empty array whose reported extents are specified: leading extent 0, all others as requested (>= 1)
	long count() const {
		long c = 1;
		for(int i = 0; i < D; ++i) c *= n[i];
		return D == 0 ? 1 : c;
	}
	bool same_extents(MArr const& o) const {
		if(D != o.D) return false;
		for(int i = 0; i < D; ++i)
			if(n[i] != o.n[i]) return false;
		return true;
	}
};

inline long prod(int const* n, int D) {
	long c = 1;
	for(int i = 0; i < D; ++i) c *= n[i];
	return c;
}

// a view = table of offsets into the root's value vector, in the view's canonical order
struct MView {
	int              D = 0;
	int              n[MAXD + 1]{};
	std::vector<int> off;
	long count() const { return prod(n, D); }
	bool same_extents(MView const& o) const {
		if(D != o.D) return false;
		for(int i = 0; i < D; ++i)
			if(n[i] != o.n[i]) return false;
		return true;
	}
};

inline MView whole(MArr const& a) {
	MView v;
	v.D = a.D;
	for(int i = 0; i < a.D; ++i) v.n[i] = a.n[i];
	long c = a.count();
	v.off.resize(static_cast<std::size_t>(c));
	for(long i = 0; i < c; ++i) v.off[static_cast<std::size_t>(i)] = static_cast<int>(i);
	return v;
}

// generic permutation of dimensions: new dim k is old dim perm[k]
inline MView permute(MView const& v, int const* perm) {
	MView r;
	r.D = v.D;
	for(int k = 0; k < v.D; ++k) r.n[k] = v.n[perm[k]];
	long c = v.count();
	r.off.resize(static_cast<std::size_t>(c));
	long ostride[MAXD + 1];
	{
		long s = 1;
		for(int k = v.D - 1; k >= 0; --k) {
			ostride[k] = s;
			s *= v.n[k];
		}
	}
	int idx[MAXD + 1]{};
	for(long i = 0; i < c; ++i) {
		long o = 0;
		for(int k = 0; k < v.D; ++k) o += idx[k] * ostride[perm[k]];
		r.off[static_cast<std::size_t>(i)] = v.off[static_cast<std::size_t>(o)];
		for(int k = v.D - 1; k >= 0; --k) {
			if(++idx[k] < r.n[k]) break;
			idx[k] = 0;
		}
	}
	return r;
}

// rows [first,last) step s of the leading dimension
inline MView rows(MView const& v, int first, int last, int step) {
	MView r = v;
	long  sub = v.D ? prod(v.n + 1, v.D - 1) : 1;
	int   cnt = 0;
	r.off.clear();
	for(int i = first; i < last; i += step) {
		++cnt;
		for(long j = 0; j < sub; ++j) r.off.push_back(v.off[static_cast<std::size_t>(i * sub + j)]);
	}
	r.n[0] = cnt;
	return r;
}

inline MView index0(MView const& v, int i) {
	MView r;
	r.D = v.D - 1;
	for(int k = 1; k < v.D; ++k) r.n[k - 1] = v.n[k];
	long sub = prod(v.n + 1, v.D - 1);
	r.off.assign(v.off.begin() + i * sub, v.off.begin() + (i + 1) * sub);
	return r;
}

inline bool flattable(MView const& v) {
	if(v.D < 2 || v.count() == 0 || v.n[1] < 2) return false;
	long sub  = prod(v.n + 2, v.D - 2);
	long step = v.off[static_cast<std::size_t>(sub)] - v.off[0];  // offset difference between [0][1] and [0][0]
	for(int i = 0; i < v.n[0]; ++i)
		for(int j = 0; j < v.n[1]; ++j)
			for(long k = 0; k < sub; ++k) {
				long idx = (static_cast<long>(i) * v.n[1] + j) * sub + k;
				if(v.off[static_cast<std::size_t>(idx)] != v.off[static_cast<std::size_t>(k)] + (static_cast<long>(i) * v.n[1] + j) * step) return false;
			}
	return true;
}

// applies one step; false if the step is out of domain for this view (then v is unspecified)
inline bool apply_step(MView& v, Step const& s) {
	if(s.kind == S_PAREN) return true;
	if(v.D < 1 || v.count() == 0) return false;  // no further steps on empty views
	int const n0 = v.n[0];
	switch(s.kind) {
	case S_IDX:
		if(v.D < 2 || s.a < 0 || s.a >= n0) return false;
		v = index0(v, s.a);
		return true;
	case S_SLICED: case S_RANGE:
		if(s.a < 0 || s.b < s.a || s.b > n0) return false;
		v = rows(v, s.a, s.b, 1);
		return true;
	case S_STRIDED:
		if(s.a < 1 || n0 % s.a != 0) return false;
		v = rows(v, 0, n0, s.a);
		return true;
	case S_DROPPED:
		if(s.a < 0 || s.a > n0) return false;
		v = rows(v, s.a, n0, 1);
		return true;
	case S_TAKED:
		if(s.a < 0 || s.a > n0) return false;
		v = rows(v, 0, s.a, 1);
		return true;
	case S_ROTATED: {
		if(v.D < 2) return false;
		int perm[MAXD + 1];
		for(int k = 0; k < v.D; ++k) perm[k] = (k + 1) % v.D;
		v = permute(v, perm);
		return true;
	}
	case S_UNROTATED: {
		if(v.D < 2) return false;
		int perm[MAXD + 1];
		for(int k = 0; k < v.D; ++k) perm[k] = (k + v.D - 1) % v.D;
		v = permute(v, perm);
		return true;
	}
	case S_TRANSPOSED: {
		if(v.D < 2) return false;
		int perm[MAXD + 1];
		for(int k = 0; k < v.D; ++k) perm[k] = k;
		perm[0] = 1;
		perm[1] = 0;
		v = permute(v, perm);
		return true;
	}
	case S_REVERSED: {
		if(v.D < 2) return false;
		int perm[MAXD + 1];
		for(int k = 0; k < v.D; ++k) perm[k] = v.D - 1 - k;
		v = permute(v, perm);
		return true;
	}
	case S_DIAGONAL: {
		if(v.D < 2) return false;
		int  m   = std::min(v.n[0], v.n[1]);
		long sub = prod(v.n + 2, v.D - 2);
		MView r;
		r.D    = v.D - 1;
		r.n[0] = m;
		for(int k = 2; k < v.D; ++k) r.n[k - 1] = v.n[k];
		for(int i = 0; i < m; ++i)
			for(long k = 0; k < sub; ++k) r.off.push_back(v.off[static_cast<std::size_t>((static_cast<long>(i) * v.n[1] + i) * sub + k)]);
		v = r;
		return true;
	}
	case S_PARTITIONED: case S_CHUNKED: {
		if(v.D + 1 > MAXVD + 1 || s.a < 1 || n0 % s.a != 0) return false;
		int parts = (s.kind == S_PARTITIONED) ? s.a : n0 / s.a;
		for(int k = v.D; k >= 2; --k) v.n[k] = v.n[k - 1];
		v.n[0] = parts;
		v.n[1] = n0 / parts;
		v.D += 1;
		return true;
	}
	case S_HALVED: {  // (n0, rest) -> (2, n0/2, rest), same elements in the same order
		if(v.D + 1 > MAXVD + 1 || n0 % 2 != 0 || n0 < 2) return false;
		for(int k = v.D; k >= 2; --k) v.n[k] = v.n[k - 1];
		v.n[0] = 2;
		v.n[1] = n0 / 2;
		v.D += 1;
		return true;
	}
	case S_FLATTED: {
		if(!flattable(v)) return false;
		v.n[0] = v.n[0] * v.n[1];
		for(int k = 1; k + 1 < v.D; ++k) v.n[k] = v.n[k + 1];
		v.D -= 1;
		return true;
	}
	case S_CALL: {
		if(s.nargs < 1 || s.nargs > v.D || s.nargs > 4) return false;
		int nidx = 0;
		for(int k = 0; k < s.nargs; ++k) {
			if(s.ak[k] == 0) {
				if(s.aa[k] < 0 || s.aa[k] >= v.n[k]) return false;
				++nidx;
			} else if(s.ak[k] == 1) {
				if(s.aa[k] < 0 || s.ab[k] <= s.aa[k] || s.ab[k] > v.n[k]) return false;  // non-empty ranges only
			}
		}
		if(v.D - nidx < 1) return false;
		// build by explicit enumeration
		MView r;
		int   lo[MAXD + 1], hi[MAXD + 1];
		bool  keep[MAXD + 1];
		for(int k = 0; k < v.D; ++k) {
			lo[k]   = 0;
			hi[k]   = v.n[k];
			keep[k] = true;
			if(k < s.nargs) {
				if(s.ak[k] == 0) {
					lo[k]   = s.aa[k];
					hi[k]   = s.aa[k] + 1;
					keep[k] = false;
				} else if(s.ak[k] == 1) {
					lo[k] = s.aa[k];
					hi[k] = s.ab[k];
				}
			}
		}
		r.D = 0;
		for(int k = 0; k < v.D; ++k)
			if(keep[k]) r.n[r.D++] = hi[k] - lo[k];
		long ostride[MAXD + 1];
		{
			long st = 1;
			for(int k = v.D - 1; k >= 0; --k) {
				ostride[k] = st;
				st *= v.n[k];
			}
		}
		int idx[MAXD + 1];
		for(int k = 0; k < v.D; ++k) idx[k] = lo[k];
		while(true) {
			long o = 0;
			for(int k = 0; k < v.D; ++k) o += idx[k] * ostride[k];
			r.off.push_back(v.off[static_cast<std::size_t>(o)]);
			int k = v.D - 1;
			for(; k >= 0; --k) {
				if(++idx[k] < hi[k]) break;
				idx[k] = lo[k];
			}
			if(k < 0) break;
		}
		v = r;
		return true;
	}
	default: return false;
	}
}

inline bool apply_chain(MView& v, Chain const& c) {
	for(int i = 0; i < c.n; ++i)
		if(!apply_step(v, c.s[i])) return false;
	return v.D >= 1 && v.D <= MAXVD;
}

// true if the two offset sets are disjoint (views of the same root)
inline bool disjoint(MView const& a, MView const& b) {
	std::vector<int> x = a.off, y = b.off;
	std::sort(x.begin(), x.end());
	std::sort(y.begin(), y.end());
	std::size_t i = 0, j = 0;
	while(i < x.size() && j < y.size()) {
		if(x[i] == y[j]) return false;
		if(x[i] < y[j]) ++i;
		else ++j;
	}
	return true;
}

inline constexpr int NFILE = 4;
struct MFile {
	bool             valid    = false;
	int              arch     = 0;      // 0 text, 1 binary, 2 xml
	bool             is_array = false;  // an owning array (extensions + elements) or a view (elements only)
	int              base     = 0;      // index base of every dimension of the saved array (0, or 1 for the re-indexed variant)
	bool             exact_empty = false;  // the saved array was empty with specified extents (leading extent 0, the others >= 1)
	int              D        = 0;
	int              n[MAXD]{};
	std::vector<i64> v;
	long count() const { return prod(n, D); }
};

struct Model {
	MArr  slot[MAXD + 1][NSLOT];
	MFile files[NFILE];
	MArr&       at(int D, int i) { return slot[D][i]; }
	MArr const& at(int D, int i) const { return slot[D][i]; }
	void        clear() {
        for(auto& row : slot)
            for(auto& m : row) {
                MArr fresh;
                m = fresh;
            }
        for(auto& f : files) {
            MFile fresh;
            f = fresh;
        }
	}
};

}  // namespace sim
