#include "../backend.hpp"
using Cfg_d4_raw = sim::SimCfg<sim::Tracked, sim::RawCfg, 4, 4>;
MSIM_DEFINE_BACKEND(d4_raw, "d4_raw", Cfg_d4_raw)
