#include "../backend.hpp"
// dimensionality corner: zero-dimensional arrays (own pool and operation set) next to 1-D arrays.
// Built with -DNDEBUG only: static_array<T,0>'s copy constructor contains an assert on a deleted member (DESIGN 9).
using Cfg_d0_raw = sim::SimCfg<sim::Tracked, sim::RawCfg, 0, 1>;
MSIM_DEFINE_BACKEND(d0_raw, "d0_raw", Cfg_d0_raw)
