#include "../backend.hpp"
using Cfg_heap_trk = sim::HeapCfg<sim::Tracked, 1, 3>;
MSIM_DEFINE_BACKEND(heap_trk, "heap_trk", Cfg_heap_trk)
