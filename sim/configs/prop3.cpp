#include "../backend.hpp"
using AC_prop3 = sim::alloc_cfg<false, true, true, false, true>;
using Cfg_prop3 = sim::SimCfg<sim::Tracked, AC_prop3, 2, 2>;
MSIM_DEFINE_BACKEND(prop3, "prop3", Cfg_prop3)
