#include "../backend.hpp"
using Cfg_static_mv = sim::SimCfg<sim::TrackedNM, sim::RawCfg, 1, 2, true>;
MSIM_DEFINE_BACKEND(static_mv, "static_mv", Cfg_static_mv)
