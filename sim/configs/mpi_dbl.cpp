#define MSIM_MPI
#include "../backend.hpp"
struct Cfg_mpi_dbl : sim::SimCfg<double, sim::RawCfg, 1, 3, false, false, true> {
	static void setup() { sim::mpi_setup(); }
};
MSIM_DEFINE_BACKEND(mpi_dbl, "mpi_dbl", Cfg_mpi_dbl)
