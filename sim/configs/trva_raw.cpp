#include "../backend.hpp"
// trivially default constructible element whose copy assignment can throw
using Cfg_trva_raw = sim::SimCfg<sim::TrivA, sim::RawCfg, 1, 3>;
MSIM_DEFINE_BACKEND(trva_raw, "trva_raw", Cfg_trva_raw)
