#include "../backend.hpp"
using Cfg_static_raw = sim::SimCfg<sim::Tracked, sim::RawCfg, 1, 2, true>;
MSIM_DEFINE_BACKEND(static_raw, "static_raw", Cfg_static_raw)
