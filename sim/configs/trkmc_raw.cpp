#include "../backend.hpp"
// element type with a throwing move constructor and a noexcept move assignment, over unequal-capable allocators
using Cfg_trkmc_raw = sim::SimCfg<sim::TrackedMC, sim::RawCfg, 1, 2>;
MSIM_DEFINE_BACKEND(trkmc_raw, "trkmc_raw", Cfg_trkmc_raw)
