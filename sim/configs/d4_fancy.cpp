#include "../backend.hpp"
using Cfg_d4_fancy = sim::SimCfg<sim::Triv, sim::FancyCfg, 4, 4>;
MSIM_DEFINE_BACKEND(d4_fancy, "d4_fancy", Cfg_d4_fancy)
