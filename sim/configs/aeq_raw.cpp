#include "../backend.hpp"
// an allocator with is_always_equal = true_type (what std::allocator is): the library's always-equal branches
using AC_aeq = sim::alloc_cfg<false, false, true, false, false, false, true>;
using Cfg_aeq_raw = sim::SimCfg<sim::Tracked, AC_aeq, 1, 2>;
MSIM_DEFINE_BACKEND(aeq_raw, "aeq_raw", Cfg_aeq_raw)
