#include "../backend.hpp"
using Cfg_trk_fancy = sim::SimCfg<sim::Tracked, sim::FancyCfg, 1, 3>;
MSIM_DEFINE_BACKEND(trk_fancy, "trk_fancy", Cfg_trk_fancy)
