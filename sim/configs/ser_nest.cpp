#define MSIM_SERIALIZATION
#include "../backend.hpp"
using Cfg_ser_nest = sim::SimCfg<sim::NestElem, sim::RawCfg, 1, 2, false, true>;
MSIM_DEFINE_BACKEND(ser_nest, "ser_nest", Cfg_ser_nest)
