#include "../backend.hpp"
using Cfg_trv_fancy = sim::SimCfg<sim::Triv, sim::FancyCfg, 1, 3>;
MSIM_DEFINE_BACKEND(trv_fancy, "trv_fancy", Cfg_trv_fancy)
