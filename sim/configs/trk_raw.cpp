#include "../backend.hpp"
using Cfg_trk_raw = sim::SimCfg<sim::Tracked, sim::RawCfg, 1, 3>;
MSIM_DEFINE_BACKEND(trk_raw, "trk_raw", Cfg_trk_raw)
