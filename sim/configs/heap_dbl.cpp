#include "../backend.hpp"
// arithmetic elements over the default allocator: arrays of double built from / assigned arrays and views of int64
using Cfg_heap_dbl = sim::HeapCfg<double, 1, 3>;
MSIM_DEFINE_BACKEND(heap_dbl, "heap_dbl", Cfg_heap_dbl)
