#include "../backend.hpp"
using AC_prop7 = sim::alloc_cfg<false, true, true, true, false>;
using Cfg_prop7 = sim::SimCfg<sim::Tracked, AC_prop7, 2, 2>;
MSIM_DEFINE_BACKEND(prop7, "prop7", Cfg_prop7)
