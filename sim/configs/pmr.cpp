#include "../backend.hpp"

namespace sim {
inline memory_resource& pmr_res(int arena) {
	static memory_resource r[World::NARENA] = {memory_resource{0}, memory_resource{1}, memory_resource{2}, memory_resource{3}};
	return r[arena];
}
struct PmrCfg {
	using elem  = Tracked;
	using alloc = std::pmr::polymorphic_allocator<Tracked>;
	template<int D> using array_t = boost::multi::pmr::array<Tracked, D>;
	template<int D> struct array_t_lazy { using type = boost::multi::pmr::array<Tracked, D>; };
	// polymorphic_allocator never propagates and select_on_container_copy_construction() returns the default resource
	static constexpr bool pocca = false, pocma = false, pocs = false, soccc_default = true, fancy = false;
	static constexpr int  dmin = 1, dmax = 2;
	static constexpr bool static_arrays = false;
	static constexpr bool serialization = false;
	static constexpr bool mpi = false;
	static constexpr bool default_init = false;
	static constexpr bool always_equal = false;
	static auto make_alloc(int arena) -> alloc { return alloc{&pmr_res(arena)}; }
	static int  arena_of(alloc const& a) {
		for(int i = 0; i < World::NARENA; ++i)
			if(a.resource() == &pmr_res(i)) return i;
		return -1;
	}
	static void setup() { std::pmr::set_default_resource(&pmr_res(0)); }
};
}  // namespace sim
MSIM_DEFINE_BACKEND(pmr, "pmr", sim::PmrCfg)
