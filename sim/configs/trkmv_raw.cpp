#include "../backend.hpp"
using Cfg_trkmv_raw = sim::SimCfg<sim::TrackedNM, sim::RawCfg, 1, 2>;
MSIM_DEFINE_BACKEND(trkmv_raw, "trkmv_raw", Cfg_trkmv_raw)
