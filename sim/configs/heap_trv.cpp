#include "../backend.hpp"
using Cfg_heap_trv = sim::HeapCfg<sim::Triv, 1, 3>;
MSIM_DEFINE_BACKEND(heap_trv, "heap_trv", Cfg_heap_trv)
