#include "../backend.hpp"
using AC_prop0 = sim::alloc_cfg<false, false, false, false, false>;
using Cfg_prop0 = sim::SimCfg<sim::Tracked, AC_prop0, 2, 2>;
MSIM_DEFINE_BACKEND(prop0, "prop0", Cfg_prop0)
