#include "../backend.hpp"
using AC_prop6 = sim::alloc_cfg<false, false, true, true, true>;
using Cfg_prop6 = sim::SimCfg<sim::Tracked, AC_prop6, 2, 2>;
MSIM_DEFINE_BACKEND(prop6, "prop6", Cfg_prop6)
