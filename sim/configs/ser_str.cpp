#define MSIM_SERIALIZATION
#include "../backend.hpp"
using Cfg_ser_str = sim::SimCfg<sim::StrElem, sim::RawCfg, 1, 2, false, true>;
MSIM_DEFINE_BACKEND(ser_str, "ser_str", Cfg_ser_str)
