#include "../backend.hpp"
using AC_prop1 = sim::alloc_cfg<false, true, false, false, true>;
using Cfg_prop1 = sim::SimCfg<sim::Tracked, AC_prop1, 2, 2>;
MSIM_DEFINE_BACKEND(prop1, "prop1", Cfg_prop1)
