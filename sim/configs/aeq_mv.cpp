#include "../backend.hpp"
// always-equal, non-propagating allocator with elements whose moves may throw
using AC_aeqn = sim::alloc_cfg<false, false, false, false, false, false, true>;
using Cfg_aeq_mv = sim::SimCfg<sim::TrackedNM, AC_aeqn, 1, 2>;
MSIM_DEFINE_BACKEND(aeq_mv, "aeq_mv", Cfg_aeq_mv)
