#include "../backend.hpp"
// zero-dimensional arrays over an allocator whose select_on_container_copy_construction returns a default instance
using AC_d0_soccc = sim::alloc_cfg<false, false, false, false, true>;
using Cfg_d0_soccc = sim::SimCfg<sim::Tracked, AC_d0_soccc, 0, 1>;
MSIM_DEFINE_BACKEND(d0_soccc, "d0_soccc", Cfg_d0_soccc)
