#include "../backend.hpp"
// static arrays over an allocator whose select_on_container_copy_construction() is not the identity
using AC_static_soccc = sim::alloc_cfg<false, false, false, false, true>;
using Cfg_static_soccc = sim::SimCfg<sim::Tracked, AC_static_soccc, 1, 2, true>;
MSIM_DEFINE_BACKEND(static_soccc, "static_soccc", Cfg_static_soccc)
