#define MSIM_SERIALIZATION
#include "../backend.hpp"
using Cfg_ser_dbl = sim::SimCfg<double, sim::RawCfg, 1, 3, false, true>;
MSIM_DEFINE_BACKEND(ser_dbl, "ser_dbl", Cfg_ser_dbl)
