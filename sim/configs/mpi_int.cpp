#define MSIM_MPI
#include "../backend.hpp"
struct Cfg_mpi_int : sim::SimCfg<int, sim::RawCfg, 1, 3, false, false, true> {
	static void setup() { sim::mpi_setup(); }
};
MSIM_DEFINE_BACKEND(mpi_int, "mpi_int", Cfg_mpi_int)
