#include "../backend.hpp"
using AC_prop5 = sim::alloc_cfg<false, true, false, true, false>;
using Cfg_prop5 = sim::SimCfg<sim::Tracked, AC_prop5, 2, 2>;
MSIM_DEFINE_BACKEND(prop5, "prop5", Cfg_prop5)
