#define MSIM_SERIALIZATION
#include "../backend.hpp"
using Cfg_ser_d4 = sim::SimCfg<double, sim::RawCfg, 4, 4, false, true>;
MSIM_DEFINE_BACKEND(ser_d4, "ser_d4", Cfg_ser_d4)
