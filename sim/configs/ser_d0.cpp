#define MSIM_SERIALIZATION
#include "../backend.hpp"
using Cfg_ser_d0 = sim::SimCfg<double, sim::RawCfg, 0, 1, false, true>;
MSIM_DEFINE_BACKEND(ser_d0, "ser_d0", Cfg_ser_d0)
