#include "../backend.hpp"
using AC_prop2 = sim::alloc_cfg<false, false, true, false, false>;
using Cfg_prop2 = sim::SimCfg<sim::Tracked, AC_prop2, 2, 2>;
MSIM_DEFINE_BACKEND(prop2, "prop2", Cfg_prop2)
