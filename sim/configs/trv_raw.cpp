#include "../backend.hpp"
using Cfg_trv_raw = sim::SimCfg<sim::Triv, sim::RawCfg, 1, 3>;
MSIM_DEFINE_BACKEND(trv_raw, "trv_raw", Cfg_trv_raw)
