#include "../backend.hpp"
using AC_dinit = sim::alloc_cfg<false, false, false, false, false, true>;
using Cfg_semis_dinit = sim::SimCfg<sim::SemiS, AC_dinit, 1, 3>;
MSIM_DEFINE_BACKEND(semis_dinit, "semis_dinit", Cfg_semis_dinit)
