#define MSIM_MPI
#include "../backend.hpp"
struct Cfg_mpi_d4 : sim::SimCfg<double, sim::RawCfg, 4, 4, false, false, true> {
	static void setup() { sim::mpi_setup(); }
};
MSIM_DEFINE_BACKEND(mpi_d4, "mpi_d4", Cfg_mpi_d4)
