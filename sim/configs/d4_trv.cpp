#include "../backend.hpp"
using Cfg_d4_trv = sim::SimCfg<sim::Triv, sim::RawCfg, 4, 4>;
MSIM_DEFINE_BACKEND(d4_trv, "d4_trv", Cfg_d4_trv)
