#include "../backend.hpp"
using Cfg_d0_trv = sim::SimCfg<sim::Triv, sim::RawCfg, 0, 1>;
MSIM_DEFINE_BACKEND(d0_trv, "d0_trv", Cfg_d0_trv)
