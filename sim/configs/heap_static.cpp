#include "../backend.hpp"
using Cfg_heap_static = sim::HeapCfg<sim::Tracked, 1, 2, true>;
MSIM_DEFINE_BACKEND(heap_static, "heap_static", Cfg_heap_static)
