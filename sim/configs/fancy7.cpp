#include "../backend.hpp"
// fancy (bounds/provenance-checking) pointer together with all three propagate_on_container_* traits
using AC_fancy7 = sim::alloc_cfg<true, true, true, true, false>;
using Cfg_fancy7 = sim::SimCfg<sim::Tracked, AC_fancy7, 1, 2>;
MSIM_DEFINE_BACKEND(fancy7, "fancy7", Cfg_fancy7)
