#define MSIM_SERIALIZATION
#include "../backend.hpp"
using Cfg_ser_trk = sim::SimCfg<sim::Tracked, sim::RawCfg, 1, 3, false, true>;
MSIM_DEFINE_BACKEND(ser_trk, "ser_trk", Cfg_ser_trk)
