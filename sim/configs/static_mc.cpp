#include "../backend.hpp"
using Cfg_static_mc = sim::SimCfg<sim::TrackedMC, sim::RawCfg, 1, 2, true>;
MSIM_DEFINE_BACKEND(static_mc, "static_mc", Cfg_static_mc)
