#include "../backend.hpp"
using Cfg_semi_raw = sim::SimCfg<sim::Semi, sim::RawCfg, 1, 3>;
MSIM_DEFINE_BACKEND(semi_raw, "semi_raw", Cfg_semi_raw)
