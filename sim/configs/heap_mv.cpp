#include "../backend.hpp"
using Cfg_heap_mv = sim::HeapCfg<sim::TrackedNM, 1, 2>;
MSIM_DEFINE_BACKEND(heap_mv, "heap_mv", Cfg_heap_mv)
