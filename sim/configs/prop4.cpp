#include "../backend.hpp"
using AC_prop4 = sim::alloc_cfg<false, false, false, true, true>;
using Cfg_prop4 = sim::SimCfg<sim::Tracked, AC_prop4, 2, 2>;
MSIM_DEFINE_BACKEND(prop4, "prop4", Cfg_prop4)
