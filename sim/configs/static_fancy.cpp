#include "../backend.hpp"
using Cfg_static_fancy = sim::SimCfg<sim::Tracked, sim::FancyCfg, 1, 2, true>;
MSIM_DEFINE_BACKEND(static_fancy, "static_fancy", Cfg_static_fancy)
