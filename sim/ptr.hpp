// sim::ptr<T> — provenance- and bounds-checking fancy pointer over the simulated arenas.
// Offers exactly: arithmetic, comparison, dereference, pointer_to, rebind, ptr<T> -> ptr<T const>.
// No conversion to or from a raw T*.
#pragma once
#include <cstddef>
#include <iterator>
#include <memory>
#include <type_traits>

#include "world.hpp"

namespace sim {

template<class T> struct allocator_tag;  // fwd

template<class T> struct ptr;

template<> struct ptr<void> {
	void* p_   = nullptr;
	int   blk_ = -1;
	ptr() = default;
	ptr(std::nullptr_t) {}  // NOLINT
	template<class U, std::enable_if_t<!std::is_const_v<U>, int> = 0> ptr(ptr<U> const& o) : p_{o.p_}, blk_{o.blk_} {}  // NOLINT
	explicit    operator bool() const { return p_ != nullptr; }
	friend bool operator==(ptr const& a, ptr const& b) { return a.p_ == b.p_; }
	friend bool operator!=(ptr const& a, ptr const& b) { return a.p_ != b.p_; }
};
template<> struct ptr<void const> {
	void const* p_   = nullptr;
	int         blk_ = -1;
	ptr() = default;
	ptr(std::nullptr_t) {}  // NOLINT
	template<class U> ptr(ptr<U> const& o) : p_{o.p_}, blk_{o.blk_} {}  // NOLINT
	explicit    operator bool() const { return p_ != nullptr; }
	friend bool operator==(ptr const& a, ptr const& b) { return a.p_ == b.p_; }
	friend bool operator!=(ptr const& a, ptr const& b) { return a.p_ != b.p_; }
};

inline constexpr int BLK_NULL = -1, BLK_EXT = -2;

template<class T> struct ptr {
	T*  p_   = nullptr;
	int blk_ = BLK_NULL;  // ledger block id, BLK_EXT for objects outside the arenas, BLK_NULL for null

	using element_type      = T;
	using value_type        = std::remove_cv_t<T>;
	using difference_type   = std::ptrdiff_t;
	using pointer           = ptr;
	using reference         = T&;
	using iterator_category = std::random_access_iterator_tag;
	template<class U> using rebind = ptr<U>;
	using default_allocator_type   = typename allocator_tag<value_type>::type;

	ptr() = default;
	ptr(std::nullptr_t) {}  // NOLINT(google-explicit-constructor)
	// ptr<T> -> ptr<T const>
	template<class U, std::enable_if_t<std::is_same_v<U const, T> && !std::is_const_v<U>, int> = 0>
	ptr(ptr<U> const& o) : p_{o.p_}, blk_{o.blk_} {}  // NOLINT(google-explicit-constructor)
	// from void pointer (needed by allocator_traits machinery only)
	template<class V, std::enable_if_t<std::is_void_v<V> && std::is_same_v<std::remove_const_t<V>, void> && (std::is_const_v<T> || !std::is_const_v<V>), int> = 0>
	explicit ptr(ptr<V> const& o) : p_{static_cast<T*>(const_cast<void*>(static_cast<void const*>(o.p_)))}, blk_{o.blk_} {}

	struct raw_t {};
	ptr(raw_t /*tag*/, T* p, int blk) : p_{p}, blk_{blk} {}

	// a pointer rebuilt from a raw address carries no provenance: pointer_to() is what a library falls back to when it has
	// lost (or never used) the pointer it was given; inside the arenas that is recorded, outside (stack objects) it is legal
	static auto pointer_to(T& r) -> ptr {
		auto* a = const_cast<std::remove_cv_t<T>*>(std::addressof(r));
		int   b = W.find_block(a);
		if(b >= 0 || W.in_region(a)) W.violate("PTR-from-raw-address", "pointer_traits::pointer_to() used to rebuild a pointer into an arena from a raw address");
		return ptr{raw_t{}, std::addressof(r), b >= 0 ? b : BLK_EXT};
	}

	explicit operator bool() const { return p_ != nullptr; }

	void check(T* q, char const* what) const {
		++W.tick;
		if(blk_ == BLK_EXT) return;
		if(blk_ == BLK_NULL) {
			W.violate("PTR-out-of-bounds", std::string(what) + " of a null sim::ptr");
			return;
		}
		Block const& b   = W.blocks[static_cast<std::size_t>(blk_)];
		auto const*  lo  = W.addr(b.arena, b.off);
		auto const*  c   = reinterpret_cast<unsigned char const*>(q);
		if(c < lo || c + sizeof(T) > lo + b.bytes) {
			W.violate("PTR-out-of-bounds", std::string(what) + " at element offset " + std::to_string((c - lo) / static_cast<std::ptrdiff_t>(sizeof(T))) + " outside arena" + std::to_string(b.arena) + ".block#" + std::to_string(b.serial) + " of " + std::to_string(b.n) + " elements");
			return;
		}
		if(!b.live) W.violate("PTR-dead-block", std::string(what) + " into freed arena" + std::to_string(b.arena) + ".block#" + std::to_string(b.serial));
	}
	static auto dummy() -> T& {
		alignas(alignof(std::max_align_t)) static unsigned char buf[256];
		return *reinterpret_cast<T*>(buf);
	}
	auto safe(T* q) const -> T& {
		if(blk_ == BLK_EXT) return *q;
		if(q == nullptr || (blk_ != BLK_EXT && !W.in_region(q))) return dummy();
		return *q;
	}

	auto operator*() const -> T& {
		check(p_, "dereference");
		return safe(p_);
	}
	auto operator->() const -> T* {
		check(p_, "operator->");
		return std::addressof(safe(p_));
	}
	auto operator[](difference_type n) const -> T& {
		check(p_ + n, "operator[]");
		return safe(p_ + n);
	}

	auto operator++() -> ptr& { ++p_; return *this; }
	auto operator--() -> ptr& { --p_; return *this; }
	auto operator++(int) -> ptr { ptr t = *this; ++p_; return t; }
	auto operator--(int) -> ptr { ptr t = *this; --p_; return t; }
	auto operator+=(difference_type n) -> ptr& { p_ += n; return *this; }
	auto operator-=(difference_type n) -> ptr& { p_ -= n; return *this; }
	friend auto operator+(ptr a, difference_type n) -> ptr { a.p_ += n; return a; }
	friend auto operator+(difference_type n, ptr a) -> ptr { a.p_ += n; return a; }
	friend auto operator-(ptr a, difference_type n) -> ptr { a.p_ -= n; return a; }
	friend auto operator-(ptr const& a, ptr const& b) -> difference_type { return a.p_ - b.p_; }

	friend bool operator==(ptr const& a, ptr const& b) { return a.p_ == b.p_; }
	friend bool operator!=(ptr const& a, ptr const& b) { return a.p_ != b.p_; }
	friend bool operator<(ptr const& a, ptr const& b) { return a.p_ < b.p_; }
	friend bool operator>(ptr const& a, ptr const& b) { return a.p_ > b.p_; }
	friend bool operator<=(ptr const& a, ptr const& b) { return a.p_ <= b.p_; }
	friend bool operator>=(ptr const& a, ptr const& b) { return a.p_ >= b.p_; }
	friend bool operator==(ptr const& a, std::nullptr_t) { return a.p_ == nullptr; }
	friend bool operator!=(ptr const& a, std::nullptr_t) { return a.p_ != nullptr; }
	friend bool operator==(std::nullptr_t, ptr const& a) { return a.p_ == nullptr; }
	friend bool operator!=(std::nullptr_t, ptr const& a) { return a.p_ != nullptr; }
};

// ---- harness-side helpers that work for both raw and fancy pointers (never used by the library)
template<class T> auto raw_of(T* p) -> T* { return p; }
template<class T> auto raw_of(ptr<T> const& p) -> T* { return p.p_; }

template<class T> auto unconst(T const* p) -> T* { return const_cast<T*>(p); }
template<class T> auto unconst(ptr<T const> const& p) -> ptr<T> { return ptr<T>{typename ptr<T>::raw_t{}, const_cast<T*>(p.p_), p.blk_}; }
template<class T, std::enable_if_t<!std::is_const_v<T>, int> = 0> auto unconst(ptr<T> const& p) -> ptr<T> { return p; }

// make a pointer of type P to raw address q inside block blk
template<class P> struct make_ptr;
template<class T> struct make_ptr<T*> {
	static auto make(T* q, int /*blk*/) -> T* { return q; }
};
template<class T> struct make_ptr<ptr<T>> {
	static auto make(T* q, int blk) -> ptr<T> { return ptr<T>{typename ptr<T>::raw_t{}, q, blk}; }
};

// the pointer type's own reinterpret cast (the customisation point reinterpret_array_cast() looks up by ADL, like
// std::reinterpret_pointer_cast for shared_ptr): same address, same provenance, other pointee type
template<class P2, class T> auto reinterpret_pointer_cast(ptr<T> const& p) -> P2 {
	return P2{typename P2::raw_t{}, reinterpret_cast<typename P2::element_type*>(p.p_), p.blk_};  // NOLINT(cppcoreguidelines-pro-type-reinterpret-cast)
}

}  // namespace sim
