// Plan generation: the only place where the PRNG is used.  The generator runs the reference model
// forward (never the real arrays) to emit in-domain operations and sensible fault positions.
#pragma once
#include <string>
#include <vector>

#include "modelops.hpp"

namespace sim {

struct Profile {
	std::string name = "all";
	// family weights
	int w_ctor = 10, w_dtor = 3, w_assign = 10, w_move = 5, w_swap = 3, w_resize = 8, w_viewwrite = 10, w_read = 4, w_alloc_forms = 3, w_conv = 3, w_il = 3, w_save = 0, w_load = 0, w_mpi = 0;
	bool faults_stream = false;
	bool deep = false;
	bool allow_overlap = false;  // generate overlapping same-root view assignments (differential C11 runs)
	int fault_free_pct = 40;   // percentage of runs without any fault
	bool faults_alloc = true, faults_elem = true;
	int  max_arenas = 3;
	int  max_ops = 40;
	int  reindexed_pct = 0;  // percentage of runs in which reextent is also applied to the array re-indexed to base 1 (resize profiles only)
};

inline Profile profile_by_name(std::string const& full) {
	Profile p;
	p.name = full;
	std::string n = full;
	if(n.size() > 5 && n.compare(n.size() - 5, 5, "-deep") == 0) {  // thorough tier: longer histories, larger extents
		n      = n.substr(0, n.size() - 5);
		p.deep = true;
	}
	if(n == "value") { p.w_resize = 3; p.w_viewwrite = 4; p.w_ctor = 14; p.w_assign = 14; p.w_move = 8; p.w_swap = 5; p.fault_free_pct = 70; }
	else if(n == "views") { p.w_viewwrite = 30; p.w_resize = 3; p.w_read = 6; p.fault_free_pct = 60; }
	else if(n == "resize") { p.w_resize = 30; p.w_il = 8; p.w_viewwrite = 4; p.fault_free_pct = 70; p.reindexed_pct = 2; }
	else if(n == "life") { p.fault_free_pct = 100; }
	else if(n == "fault") { p.fault_free_pct = 0; }
	else if(n == "alloc") { p.w_alloc_forms = 14; p.w_move = 12; p.w_swap = 6; p.w_assign = 12; p.w_viewwrite = 2; p.w_resize = 5; p.max_arenas = 4; p.fault_free_pct = 75; p.faults_elem = false; }
	else if(n == "nofault") { p.fault_free_pct = 100; }
	else if(n == "mpi") { p.fault_free_pct = 100; p.w_mpi = 40; p.w_viewwrite = 6; p.w_resize = 4; p.w_conv = 0; p.w_il = 1; p.w_ctor = 12; }
	else if(n == "c11") { p.fault_free_pct = 100; p.allow_overlap = true; p.w_viewwrite = 18; }
	else if(n == "ser") { p.w_save = 14; p.w_load = 18; p.w_viewwrite = 5; p.w_resize = 6; p.w_ctor = 12; p.w_conv = 1; p.w_il = 1; p.faults_stream = true; p.fault_free_pct = 60; }
	else if(n == "serfault") { p.w_save = 14; p.w_load = 18; p.w_viewwrite = 5; p.w_resize = 6; p.w_ctor = 12; p.w_conv = 1; p.w_il = 1; p.faults_stream = true; p.fault_free_pct = 0; }
	else if(n == "sernofault") { p.w_save = 14; p.w_load = 18; p.w_viewwrite = 5; p.w_resize = 6; p.w_ctor = 12; p.w_conv = 1; p.w_il = 1; p.fault_free_pct = 100; }
	if(p.deep) p.max_ops = 80;
	return p;
}

struct Gen {
	Rng          rng;
	ModelTraits  T;
	Profile      P;
	Model        M;
	int          maxext = 3, narena = 1;
	int          pfault = 0;  // per-op fault probability in percent
	bool         reindex_run = false;  // this run applies some reextents to the array re-indexed to base 1
	std::vector<int> fkinds;
	i64          next_val = 1;

	Gen(u64 seed, ModelTraits const& t, Profile const& p) : rng(seed), T(t), P(p) {}

	int  rdim() { return rng.range(T.dmin, T.dmax); }
	int  rext() {
        if(rng.chance(1, 12)) return 0;
        return rng.range(1, maxext);
	}
	int  rarena() { return rng.below(narena); }
	i64  rval() { return (next_val++) * 1000; }
	int  alive_slot(int D) {
        std::vector<int> c;
        for(int i = 0; i < NSLOT; ++i)
            if(M.at(D, i).alive) c.push_back(i);
        return c.empty() ? -1 : rng.pick(c);
	}
	int  dead_slot(int D) {
        std::vector<int> c;
        for(int i = 0; i < NSLOT; ++i)
            if(!M.at(D, i).alive) c.push_back(i);
        return c.empty() ? -1 : rng.pick(c);
	}
	int  any_alive_dim() {
        std::vector<int> c;
        for(int D = std::max(1, T.dmin); D <= T.dmax; ++D)
            if(alive_slot(D) >= 0) c.push_back(D);
        return c.empty() ? -1 : rng.pick(c);
	}

	// random in-domain chain over view v (modified in place); target_D < 0: any
	Chain rchain(MView& v, int maxsteps) {
		Chain c;
		int   n = rng.below(maxsteps + 1);
		for(int i = 0; i < n; ++i) {
			if(v.count() == 0) break;
			for(int attempt = 0; attempt < 6; ++attempt) {
				Step s;
				s.kind = rng.below(S_COUNT);
				s.mode = rng.below(3);
				int const n0 = v.n[0];
				switch(s.kind) {
				case S_IDX: s.a = rng.below(n0); break;
				case S_SLICED: case S_RANGE:
					s.a = rng.below(n0 + 1);
					s.b = rng.range(s.a, n0);
					if(s.a == s.b && !rng.chance(1, 6)) { s.b = std::min(n0, s.a + 1); if(s.a == s.b) s.a = s.b - 1; }
					break;
				case S_STRIDED: {
					std::vector<int> d;
					for(int k = 1; k <= n0; ++k)
						if(n0 % k == 0) d.push_back(k);
					s.a = rng.pick(d);
					break;
				}
				case S_DROPPED: case S_TAKED: s.a = rng.below(n0 + 1); if((s.kind == S_DROPPED ? s.a == n0 : s.a == 0) && !rng.chance(1, 6)) s.a = (s.kind == S_DROPPED ? 0 : n0); break;
				case S_PARTITIONED: case S_CHUNKED: {
					std::vector<int> d;
					for(int k = 1; k <= n0; ++k)
						if(n0 % k == 0) d.push_back(k);
					s.a = rng.pick(d);
					break;
				}
				case S_CALL: {
					s.nargs = rng.range(1, std::min(4, v.D));
					for(int k = 0; k < s.nargs; ++k) {
						s.ak[k] = rng.below(3);
						if(s.ak[k] == 0) s.aa[k] = rng.below(v.n[k]);
						else if(s.ak[k] == 1) {
							s.aa[k] = rng.below(v.n[k]);
							s.ab[k] = rng.range(s.aa[k] + 1, v.n[k]);
						}
					}
					break;
				}
				default: break;
				}
				if((s.kind == S_TAKED || s.kind == S_STRIDED || s.kind == S_DROPPED || s.kind == S_REVERSED) && s.mode == 2) s.mode = 1;  // these const& overloads are not instantiable at the pinned commit (DESIGN 9.12)
				MView t = v;
				if(apply_step(t, s) && t.D >= 1 && t.D <= MAXVD) {
					v          = t;
					c.s[c.n++] = s;
					break;
				}
			}
		}
		return c;
	}

	// chain on root (D,slot) whose result has dimensionality wantD (or any if < 0) and, optionally, the extents of `like`
	bool find_view(int D, int slot, int wantD, MView const* like, bool same_count_only, Chain& c, MView& out, int tries = 12) {
		if(D < 1 || slot < 0) return false;
		MArr const& r = M.at(D, slot);
		if(!r.alive) return false;
		for(int t = 0; t < tries; ++t) {
			MView v = whole(r);
			c       = r.count() == 0 ? Chain{} : rchain(v, 3);
			if(wantD >= 0 && v.D != wantD) continue;
			if(like) {
				if(same_count_only) {
					if(v.count() != like->count()) continue;
				} else if(!v.same_extents(*like)) continue;
			}
			out = v;
			return true;
		}
		return false;
	}

	// a view with exactly the extents of `like`, by construction: whole root sliced down along each dimension
	bool fit_view(int D, int slot, MView const& like, Chain& c, MView& out) {
		if(D < 1 || slot < 0) return false;
		MArr const& r = M.at(D, slot);
		if(!r.alive || r.count() == 0 || like.count() == 0) return false;
		if(like.D == D) {
			// sliced in dim 0, then (rotated, sliced) ... only two dims adjustable with 3 steps; use call syntax with ranges
			bool fits = true;
			for(int k = 0; k < D; ++k) fits &= like.n[k] <= r.n[k];
			if(fits && D <= 3) {
				Step s;
				s.kind  = S_CALL;
				s.nargs = D;
				s.mode  = rng.below(3);
				for(int k = 0; k < D; ++k) {
					s.ak[k] = 1;
					s.aa[k] = rng.below(r.n[k] - like.n[k] + 1);
					s.ab[k] = s.aa[k] + like.n[k];
				}
				c      = Chain{};
				c.s[0] = s;
				c.n    = 1;
				out    = whole(r);
				return apply_chain(out, c) && out.same_extents(like);
			}
		}
		if(like.D == D - 1 && D >= 2) {
			bool fits = true;
			for(int k = 0; k < like.D; ++k) fits &= like.n[k] <= r.n[k + 1];
			if(fits && D <= 3) {
				Step s;
				s.kind  = S_CALL;
				s.nargs = D;
				s.mode  = rng.below(3);
				s.ak[0] = 0;
				s.aa[0] = rng.below(r.n[0]);
				for(int k = 1; k < D; ++k) {
					s.ak[k] = 1;
					s.aa[k] = rng.below(r.n[k] - like.n[k - 1] + 1);
					s.ab[k] = s.aa[k] + like.n[k - 1];
				}
				c      = Chain{};
				c.s[0] = s;
				c.n    = 1;
				out    = whole(r);
				return apply_chain(out, c) && out.same_extents(like);
			}
		}
		return false;
	}

	void fill_exts(Op& o, int D) {
		o.nx = D;
		for(int k = 0; k < D; ++k) o.x[k] = rext();
	}
	void fill_il_shape(Op& o, int D) {
		o.nx = D;
		if(D == 1) o.x[0] = rng.range(1, 4);
		else if(D == 2) { o.x[0] = rng.range(1, 3); o.x[1] = rng.range(1, 3); }
		else {
			static int const sh[3][3] = {{2, 2, 2}, {1, 2, 3}, {2, 1, 2}};
			int const        k        = rng.below(3);
			for(int j = 0; j < 3; ++j) o.x[j] = sh[k][j];
		}
	}

	// tries to produce one op of the given family; returns false if nothing in domain was found
	bool make(int family, Op& o, Effect& e) {
		for(int attempt = 0; attempt < 8; ++attempt) {
			o      = Op{};
			int D  = rdim();
			o.da   = D;
			switch(family) {
			case 0: {  // construction
				o.a = dead_slot(D);
				if(o.a < 0) continue;
				static int const kinds[] = {O_CTOR_DEFAULT, O_CTOR_EXT, O_CTOR_EXT, O_CTOR_EXT_ELEM, O_CTOR_EXT_ELEM, O_CTOR_COPY, O_CTOR_COPY, O_CTOR_MOVE, O_CTOR_VIEW, O_CTOR_VIEW, O_CTOR_RANGE, O_DECAY, O_CTOR_IL};
				o.kind = kinds[rng.below(static_cast<int>(sizeof kinds / sizeof *kinds))];
				break;
			}
			case 1: o.kind = O_DESTROY; o.a = alive_slot(D); break;
			case 2: {  // assignment
				static int const kinds[] = {O_ASSIGN_COPY, O_ASSIGN_COPY, O_ASSIGN_COPY, O_ASSIGN_VIEW, O_ASSIGN_VIEW, O_ASSIGN_SELF, O_ASSIGN_ITER, O_ASSIGN_RANGE, O_FROM, O_ELEM_WRITE, O_ELEM_WRITE};
				o.kind = kinds[rng.below(static_cast<int>(sizeof kinds / sizeof *kinds))];
				o.a    = alive_slot(D);
				break;
			}
			case 3: o.kind = rng.chance(1, 6) ? O_ASSIGN_SELF : O_ASSIGN_MOVE; o.a = alive_slot(D); if(o.kind == O_ASSIGN_SELF) o.var = 1; break;
			case 4: o.kind = O_SWAP; o.a = alive_slot(D); o.var = rng.below(2); break;
			case 5: {  // resize family
				static int const kinds[] = {O_REEXTENT, O_REEXTENT, O_REEXTENT, O_REEXTENT_FILL, O_REEXTENT_FILL, O_REEXTENT_MOVE, O_CLEAR, O_RESHAPE, O_ASSIGN_IL_EMPTY};
				o.kind = kinds[rng.below(static_cast<int>(sizeof kinds / sizeof *kinds))];
				o.a    = alive_slot(D);
				break;
			}
			case 6: {  // writes through views
				static int const kinds[] = {O_VASSIGN_VIEW, O_VASSIGN_VIEW, O_VASSIGN_VIEW, O_VASSIGN_ARRAY, O_VASSIGN_CONV, O_VASSIGN_RANGE, O_VASSIGN_IL, O_VFILL, O_VSWAP, O_EASSIGN, O_EASSIGN_IL, O_ELEM_WRITE, O_REF_ASSIGN};
				o.kind = kinds[rng.below(static_cast<int>(sizeof kinds / sizeof *kinds))];
				o.a    = alive_slot(D);
				break;
			}
			case 7: o.kind = rng.chance(1, 4) ? O_COMPARE : O_READ; o.a = alive_slot(D); break;
			case 8: {  // allocator-extended forms
				static int const kinds[] = {O_CTOR_ALLOC, O_CTOR_EXT, O_CTOR_EXT_ELEM, O_CTOR_COPY_ALLOC, O_CTOR_MOVE_ALLOC, O_CTOR_VIEW, O_CTOR_RANGE, O_CTOR_IL, O_CTOR_CONV};
				o.kind = kinds[rng.below(static_cast<int>(sizeof kinds / sizeof *kinds))];
				o.a    = dead_slot(D);
				o.var  = 1;
				o.ar   = rarena();
				break;
			}
			case 9: {  // convertible element type
				static int const kinds[] = {O_CTOR_CONV, O_ASSIGN_CONV, O_ASSIGN_CONV, O_VASSIGN_CONV};
				o.kind = kinds[rng.below(static_cast<int>(sizeof kinds / sizeof *kinds))];
				o.a    = o.kind == O_CTOR_CONV ? dead_slot(D) : alive_slot(D);
				break;
			}
			case 10: {  // initializer lists
				static int const kinds[] = {O_CTOR_IL, O_ASSIGN_IL, O_ASSIGN_IL, O_VASSIGN_IL, O_EASSIGN_IL};
				o.kind = kinds[rng.below(static_cast<int>(sizeof kinds / sizeof *kinds))];
				o.a    = o.kind == O_CTOR_IL ? dead_slot(D) : alive_slot(D);
				break;
			}
			case 11: {  // save
				o.kind = O_SAVE;
				o.a    = alive_slot(D);
				o.file = rng.below(NFILE);
				o.arch = rng.below(3);
				o.var  = D == 0 ? 0 : rng.below(4);  // 0 array, 1 view, 2 array re-indexed to base 1, 3 read-only view
				break;
			}
			case 13: {  // MPI
				o.kind = rng.chance(1, 3) ? O_MSG_PACK : O_MSG_XFER;
				o.a    = alive_slot(D);
				o.var  = rng.below(16);
				break;
			}
			case 12: {  // load
				o.kind = O_LOAD;
				std::vector<int> fs;
				for(int f = 0; f < NFILE; ++f)
					if(M.files[f].valid) fs.push_back(f);
				if(fs.empty()) continue;
				o.file = rng.pick(fs);
				MFile const& f = M.files[o.file];
				if(f.is_array) {
					D    = f.D;
					o.da = D;
					if(D < T.dmin || D > T.dmax) continue;
					o.a = alive_slot(D);
					if(D > 0 && !T.static_arrays && rng.chance(1, 5)) {
						o.var = 1;  // into an array whose index base is 1; preferably one of the saved sizes
						for(int i = 0; i < NSLOT; ++i)
							if(M.at(D, i).alive && dims_equal(M.at(D, i), f.D, f.n) && rng.chance(2, 3)) o.a = i;
					}
				} else {
					o.a = alive_slot(D);
				}
				break;
			}
			default: return false;
			}
			if(o.a < 0) continue;
			// second operand / arguments
			switch(o.kind) {
			case O_CTOR_EXT: case O_CTOR_EXT_ELEM: {
				fill_exts(o, D);
				if(o.kind == O_CTOR_EXT_ELEM) o.v = rval();
				int const twin = alive_slot(D);
				if(twin >= 0 && rng.chance(family == 8 ? 1 : 1, family == 8 ? 2 : 5))  // a twin: same extents as an existing array (possibly on another arena)
					for(int k = 0; k < D; ++k) o.x[k] = M.at(D, twin).n[k];
				break;
			}
			case O_CTOR_COPY: case O_CTOR_COPY_ALLOC: case O_CTOR_MOVE: case O_CTOR_MOVE_ALLOC: case O_ASSIGN_COPY: case O_ASSIGN_MOVE: case O_SWAP: {
				if(o.kind == O_CTOR_MOVE && T.static_arrays && rng.chance(1, 3)) {  // a static array from a moved resizable array (built by the harness on arena o.ar)
					o.var = 1;
					o.nx  = D;
					for(int k = 0; k < D; ++k) o.x[k] = rng.range(1, std::max(1, std::min(4, maxext)));
					o.ar = rarena();
					o.v  = rval();
					break;
				}
				o.b = alive_slot(D);
				if(o.b < 0 || o.b == o.a) continue;
				if(o.kind == O_CTOR_COPY && D > 0 && M.at(D, o.b).count() > 0 && rng.chance(1, 5)) o.var = 1;  // from a temporary array_ref over b's storage
				if((o.kind == O_ASSIGN_COPY || o.kind == O_ASSIGN_MOVE || o.kind == O_SWAP) && rng.chance(1, 2)) {
					// bias: a same-extent partner if one exists, preferring one on another arena
					for(int i = 0; i < NSLOT; ++i)
						if(i != o.a && M.at(D, i).alive && M.at(D, i).same_extents(M.at(D, o.a))) o.b = i;
					for(int i = 0; i < NSLOT; ++i)
						if(i != o.a && M.at(D, i).alive && M.at(D, i).same_extents(M.at(D, o.a)) && M.at(D, i).arena != M.at(D, o.a).arena && rng.chance(2, 3)) o.b = i;
				}
				if(o.kind == O_ASSIGN_COPY && !T.static_arrays && D > 0 && M.at(D, o.b).count() > 0 && rng.chance(1, 8)) o.var = 1;  // source re-indexed to base 1 for the call
				break;
			}
			case O_CTOR_VIEW: case O_CTOR_RANGE: case O_DECAY: case O_ASSIGN_VIEW: case O_ASSIGN_ITER: case O_ASSIGN_RANGE: case O_FROM: {
				o.db = any_alive_dim();
				if(o.db < 0) continue;
				o.b = alive_slot(o.db);
				if((o.kind == O_ASSIGN_VIEW || o.kind == O_ASSIGN_ITER || o.kind == O_ASSIGN_RANGE || o.kind == O_FROM) && rng.chance(1, 6)) { o.db = D; o.b = o.a; }  // a view of the target itself
				if((o.kind == O_ASSIGN_ITER || o.kind == O_ASSIGN_RANGE) && M.at(D, o.a).count() == 0 && M.at(D, o.a).n[0] == 0 && rng.chance(1, 2)) {
					// an empty range into an empty array: a whole empty array of the same dimensionality, or a view sliced to nothing
					for(int i = 0; i < NSLOT; ++i)
						if(i != o.a && M.at(D, i).alive && M.at(D, i).count() == 0 && M.at(D, i).n[0] == 0) { o.db = D; o.b = i; o.cb = Chain{}; }
					if(o.db == D && o.b != o.a && M.at(D, o.b).count() == 0) {
						Effect e2;
						if(plan_effect(M, T, o, e2)) { e = e2; return true; }
					}
				}
				if(o.kind == O_CTOR_RANGE && rng.chance(1, 8)) {
					// an empty range: a whole empty array of the same dimensionality, or a non-empty one sliced to nothing
					int const src = alive_slot(D);
					if(src >= 0 && src != o.a) {
						o.db = D;
						o.b  = src;
						o.cb = Chain{};
						MArr const& sa = M.at(D, src);
						if(sa.count() > 0) {
							Step st;
							st.kind   = S_SLICED;
							st.mode   = rng.below(3);
							st.a = st.b = rng.below(sa.n[0] + 1);
							o.cb.s[0] = st;
							o.cb.n    = 1;
						}
						Effect e2;
						if(plan_effect(M, T, o, e2)) { e = e2; return true; }
					}
				}
				MView v;
				bool  found = false;
				if(o.kind != O_CTOR_VIEW && o.kind != O_CTOR_RANGE && o.kind != O_DECAY && rng.chance(1, 2) && M.at(D, o.a).count() > 0) {
					MView like = whole(M.at(D, o.a));  // same-extents path
					found      = fit_view(o.db, o.b, like, o.cb, v);
				}
				if(!found && !find_view(o.db, o.b, D, nullptr, false, o.cb, v)) continue;
				if(o.kind == O_CTOR_VIEW) o.var = (o.var & 1) | (rng.chance(1, 3) ? 2 : 0);
				else if(o.kind == O_DECAY) { o.var = rng.below(3); if(o.var == 2) { o.cb = Chain{}; o.db = D; o.b = alive_slot(D); if(o.b < 0) continue; } }
				else if(o.kind == O_ASSIGN_VIEW) o.var = rng.below(2);
				break;
			}
			case O_CTOR_IL: case O_ASSIGN_IL: fill_il_shape(o, D); o.v = rval();
				if(o.kind == O_ASSIGN_IL && rng.chance(1, 3) && M.at(D, o.a).alive && il_shape_ok(D, M.at(D, o.a).n)) for(int k = 0; k < D; ++k) o.x[k] = M.at(D, o.a).n[k];
				break;
			case O_CTOR_CONV: case O_ASSIGN_CONV: {
				o.nx = D;
				for(int k = 0; k < D; ++k) o.x[k] = rng.range(1, std::max(1, std::min(4, maxext)));
				int form = rng.below(D >= 2 ? 3 : 2);
				if(o.kind == O_CTOR_CONV && !(o.var & 1) && rng.chance(1, 3)) form = 3 + rng.below(2);
				if(o.kind == O_ASSIGN_CONV && M.at(D, o.a).count() > 0 && rng.chance(1, 2)) {
					MArr const& a = M.at(D, o.a);
					bool small = true;
					for(int k = 0; k < D; ++k) small &= a.n[k] >= 1 && a.n[k] <= 4;
					if(small) {
						if(rng.chance(1, 2)) { for(int k = 0; k < D; ++k) o.x[k] = a.n[k]; if(form == 2) std::swap(o.x[0], o.x[1]); }
						else { for(int k = 0; k < D; ++k) o.x[k] = a.n[D - 1 - k]; form = 0; }  // same count, other shape
					}
				}
				o.var = (o.var & 1) | (form << 1);
				o.v   = rval();
				break;
			}
			case O_REEXTENT: case O_REEXTENT_FILL: case O_REEXTENT_MOVE: {
				fill_exts(o, D);
				MArr const& a = M.at(D, o.a);
				int const   r = rng.below(10);
				if(r == 0) for(int k = 0; k < D; ++k) o.x[k] = a.n[k];  // no-op
				else if(r < 4) for(int k = 0; k < D; ++k) o.x[k] = std::max(0, std::min(6, a.n[k] + rng.range(-1, 1)));
				if(o.kind == O_REEXTENT_FILL) o.v = rval();
				if(o.kind != O_REEXTENT_MOVE && reindex_run && a.count() > 0 && rng.chance(1, 2)) {
					o.var = 1;
					for(int k = 0; k < D; ++k) o.x[k] = std::max(1, o.x[k]);
				}
				break;
			}
			case O_RESHAPE: {
				MArr const& a = M.at(D, o.a);
				if(!a.alive || a.count() == 0) continue;
				o.nx    = D;
				long c  = a.count();
				for(int k = 0; k < D - 1; ++k) {
					std::vector<int> d;
					for(int q = 1; q <= c && q <= 6; ++q)
						if(c % q == 0) d.push_back(q);
					o.x[k] = rng.pick(d);
					c /= o.x[k];
				}
				if(c > 6) continue;
				o.x[D - 1] = static_cast<int>(c);
				break;
			}
			case O_VASSIGN_VIEW: case O_VSWAP: case O_EASSIGN: {
				MView dv;
				if(!find_view(D, o.a, -1, nullptr, false, o.ca, dv) || dv.count() == 0) { if(!rng.chance(1, 8)) continue; }
				o.db = any_alive_dim();
				if(o.db < 0) continue;
				o.b = alive_slot(o.db);
				MView sv;
				bool  found = false;
				if(P.allow_overlap && rng.chance(1, 3)) { o.db = D; o.b = o.a; }  // same root: overlapping operands become likely
				if(rng.chance(1, 2)) found = fit_view(o.db, o.b, dv, o.cb, sv);
				if(!found && !find_view(o.db, o.b, o.kind == O_EASSIGN ? -1 : dv.D, &dv, o.kind == O_EASSIGN, o.cb, sv, 20)) continue;
				o.var = o.kind == O_VASSIGN_VIEW ? rng.below(6) : o.kind == O_VSWAP ? rng.below(5) : rng.below(2);
				if(o.kind == O_VASSIGN_VIEW && rng.chance(1, 8) && dv.D >= T.dmin && dv.D <= T.dmax) {  // whole moved array as source
					for(int i = 0; i < NSLOT; ++i)
						if(M.at(dv.D, i).alive && !(dv.D == D && i == o.a) && dims_equal(M.at(dv.D, i), dv.D, dv.n)) { o.db = dv.D; o.b = i; o.cb = Chain{}; o.var = 6; }
				}
				if(P.allow_overlap && o.kind != O_VSWAP && rng.chance(1, 2)) { o.ov = 1; o.var = 0; }
				break;
			}
			case O_REF_ASSIGN: {
				if(rng.chance(1, 3)) {  // from an array_ref over elements of the convertible type
					o.var = 4 + rng.below(2);
					o.v   = rval();
					break;
				}
				o.b = -1;
				for(int i = 0; i < NSLOT; ++i)
					if(i != o.a && M.at(D, i).alive && M.at(D, i).same_extents(M.at(D, o.a)) && (o.b < 0 || rng.chance(1, 2))) o.b = i;
				if(o.b < 0) continue;
				o.var = rng.below(4);
				break;
			}
			case O_VASSIGN_ARRAY: {
				MView dv;
				if(!find_view(D, o.a, -1, nullptr, false, o.ca, dv) || dv.count() == 0) continue;
				o.db = dv.D;
				o.b  = -1;
				if(dv.D < T.dmin || dv.D > T.dmax) continue;
				for(int i = 0; i < NSLOT; ++i) {
					MArr const& b = M.at(dv.D, i);
					if(b.alive && !(dv.D == D && i == o.a) && dims_equal(b, dv.D, dv.n)) o.b = i;
				}
				if(o.b < 0) continue;
				break;
			}
			case O_VASSIGN_CONV: case O_VASSIGN_RANGE: case O_VASSIGN_IL: case O_VFILL: case O_EASSIGN_IL: {
				MView dv;
				int const fv   = o.kind == O_VFILL ? rng.below(9) : 0;  // 0: member fill (1-D views); 1..8: element by element through the flat iterators
				int const want = o.kind == O_VFILL && fv == 0 ? 1 : -1;
				if(!find_view(D, o.a, want, nullptr, false, o.ca, dv) || dv.count() == 0) continue;
				o.v   = rval();
				o.var = o.kind == O_VASSIGN_CONV ? rng.below(2) : o.kind == O_VASSIGN_RANGE ? rng.below(2) : fv;
				break;
			}
			case O_ELEM_WRITE: {
				MArr const& a = M.at(D, o.a);
				if(a.count() == 0) continue;
				o.nx = D;
				for(int k = 0; k < D; ++k) o.x[k] = rng.below(a.n[k]);
				o.v = rval();
				break;
			}
			case O_READ: {
				MView v;
				if(!find_view(D, o.a, -1, nullptr, false, o.ca, v)) continue;
				o.var = rng.below(T.tracked_is_triv ? 5 : 3);
				if(rng.chance(1, 6)) o.var = 5;  // through operator-> of the elements iterators
				if(o.var >= 3 && v.count() == 0) o.var = 0;
				break;
			}
			case O_COMPARE: {
				if(rng.chance(1, 3)) {  // two owning arrays, any extents
					o.var = 1;
					o.db  = D;
					o.b   = alive_slot(D);
					if(o.b < 0 || o.b == o.a) continue;
					// prefer a partner with the same leading extent (the interesting near-miss)
					for(int i = 0; i < NSLOT; ++i)
						if(i != o.a && M.at(D, i).alive && M.at(D, i).count() > 0 && M.at(D, i).n[0] == M.at(D, o.a).n[0] && rng.chance(1, 2)) o.b = i;
					break;
				}
				MView x, y;
				if(!find_view(D, o.a, -1, nullptr, false, o.ca, x) || x.count() == 0) continue;
				o.db = any_alive_dim();
				if(o.db < 0) continue;
				o.b = alive_slot(o.db);
				bool found = rng.chance(2, 3) && fit_view(o.db, o.b, x, o.cb, y);
				if(!found && !find_view(o.db, o.b, x.D, &x, false, o.cb, y)) continue;
				if(y.count() == 0) continue;
				break;
			}
			case O_ASSIGN_SELF: if(family == 2) o.var = rng.below(2); break;
			case O_MSG_PACK: case O_MSG_XFER: {
				MView sv;
				if(!find_view(D, o.a, -1, nullptr, false, o.ca, sv) || sv.count() == 0) continue;
				if(o.kind == O_MSG_XFER) {
					o.db = any_alive_dim();
					if(o.db < 0) continue;
					o.b = alive_slot(o.db);
					MView dv;
					bool  found = rng.chance(1, 2) && fit_view(o.db, o.b, sv, o.cb, dv);
					if(!found && !find_view(o.db, o.b, -1, &sv, true, o.cb, dv, 20)) continue;
				}
				break;
			}
			case O_SAVE: {
				if(o.var == 1 || o.var == 3) {
					MView v;
					if(!find_view(D, o.a, -1, nullptr, false, o.ca, v) || v.count() == 0) continue;
				}
				break;
			}
			case O_LOAD: {
				MFile const& f = M.files[o.file];
				if(!f.is_array) {
					MView like;
					like.D = f.D;
					for(int k = 0; k < f.D; ++k) like.n[k] = f.n[k];
					like.off.resize(static_cast<std::size_t>(f.count()));
					MView v;
					bool  found = false;
					for(int t = 0; t < 4 && !found; ++t) {
						o.da = rng.range(std::max(1, T.dmin), T.dmax);
						o.a  = alive_slot(o.da);
						if(o.a < 0) continue;
						found = fit_view(o.da, o.a, like, o.ca, v) || find_view(o.da, o.a, f.D, &like, false, o.ca, v, 6);
					}
					if(!found) continue;
				}
				break;
			}
			default: break;
			}
			if(plan_effect(M, T, o, e)) return true;
		}
		return false;
	}

	Plan generate() {
		Plan p;
		p.knobs.reuse = rng.chance(1, 2);
		if(T.serialization) p.knobs.chunk_r = std::vector<int>{0, 1, 1, 2, 3, 7, 64}[static_cast<std::size_t>(rng.below(7))];
		maxext        = P.deep ? std::vector<int>{2, 3, 4, 4, 5, 5, 6, 6}[static_cast<std::size_t>(rng.below(8))] : std::vector<int>{1, 2, 2, 3, 3, 3, 4, 4, 3, 4, 5, 6}[static_cast<std::size_t>(rng.below(12))];
		narena        = T.always_equal ? 1 : rng.range(1, P.max_arenas);
		reindex_run   = P.reindexed_pct > 0 && rng.below(100) < P.reindexed_pct;
		bool const fault_free = rng.below(100) < P.fault_free_pct;
		pfault        = fault_free ? 0 : std::vector<int>{5, 15, 40}[static_cast<std::size_t>(rng.below(3))];
		fkinds.clear();
		if(!fault_free) {
			std::vector<int> all;
			if(P.faults_alloc) all.push_back(F_ALLOC);
			if(P.faults_elem) {
				all.push_back(F_CCTOR);
				all.push_back(F_CASSIGN);
				all.push_back(F_DCTOR);
				all.push_back(F_CONV);
				if(T.throwing_move) {
					all.push_back(F_MCTOR);
					all.push_back(F_MASSIGN);
				}
			}
			if(T.trivial) {
				all = {F_ALLOC};
				if(T.assign_throws && P.faults_elem) all.push_back(F_CASSIGN);
			}
			for(int k : all)
				if(rng.chance(2, 3)) fkinds.push_back(k);
			if(fkinds.empty()) fkinds.push_back(all[static_cast<std::size_t>(rng.below(static_cast<int>(all.size())))]);
		}
		int nops = 1;
		{
			int const r = rng.below(100);
			if(r < 25) nops = rng.range(1, 4);
			else if(r < 70) nops = rng.range(5, 14);
			else if(r < 93) nops = rng.range(15, 25);
			else nops = rng.range(26, P.max_ops);
			if(P.deep && rng.chance(1, 2)) nops = rng.range(20, P.max_ops);
		}
		// swarm: disable a random subset of families for this run
		std::vector<int> w = {P.w_ctor, P.w_dtor, P.w_assign, P.w_move, P.w_swap, P.w_resize, P.w_viewwrite, P.w_read, P.w_alloc_forms, P.w_conv, P.w_il, T.serialization ? P.w_save : 0, T.serialization ? P.w_load : 0, T.mpi ? P.w_mpi : 0};
		for(std::size_t k = 1; k < w.size(); ++k)
			if(rng.chance(1, 5) && k < 11) w[k] = 0;
		if(narena == 1) w[8] = w[8] / 2;
		if(T.static_arrays) { w[3] = w[3] / 2; w[5] = 0; }
		bool retry_pending = false;
		Op   retry_op;
		for(int i = 0; i < nops; ++i) {
			Op     o;
			Effect e;
			bool   got = false;
			if(retry_pending) {
				retry_pending = false;
				o             = retry_op;
				o.fk          = F_NONE;
				o.fn          = -1;
				got           = plan_effect(M, T, o, e);
			}
			// make sure something is alive early in the run
			int alive = 0;
			for(int D = T.dmin; D <= T.dmax; ++D)
				for(int s = 0; s < NSLOT; ++s) alive += M.at(D, s).alive ? 1 : 0;
			for(int attempt = 0; attempt < 6 && !got; ++attempt) {
				int fam = (alive < 2 && rng.chance(3, 4)) ? (rng.chance(1, 5) ? 8 : 0) : rng.weighted(w);
				if(fam < 0) fam = 0;
				got = make(fam, o, e);
			}
			if(!got) continue;
			if(pfault > 0 && P.faults_stream && (o.kind == O_LOAD || o.kind == O_SAVE) && rng.below(100) < std::max(pfault, 30)) {
				o.fk = o.kind == O_LOAD ? F_EOF : F_WERR;
				long const approx = 40 + 14 * std::max<long>(1, e.elems);
				int const  r      = rng.below(10);
				o.fn = r < 2 ? rng.below(12) : r < 4 ? static_cast<int>(approx) - rng.below(12) : rng.below(static_cast<int>(approx) + 20);
				if(o.fn < 0) o.fn = 0;
				if(o.kind == O_LOAD && rng.chance(1, 2)) {
					retry_pending = true;
					retry_op      = o;
				}
			} else if(pfault > 0 && rng.below(100) < pfault && !e.reads_only) {
				o.fk        = fkinds[static_cast<std::size_t>(rng.below(static_cast<int>(fkinds.size())))];
				long const n = std::max<long>(1, e.elems);
				int const  r = rng.below(10);
				if(o.fk == F_ALLOC) o.fn = rng.chance(4, 5) ? 0 : rng.below(3);
				else if(r < 3) o.fn = 0;
				else if(r < 5) o.fn = static_cast<int>(n - 1);
				else if(r < 6) o.fn = static_cast<int>(n);
				else o.fn = rng.below(static_cast<int>(n) + 1);
				if(rng.chance(1, 2)) {
					retry_pending = true;
					retry_op      = o;
				}
			}
			// model transition (the generator assumes faults do not fire; execution re-validates every op)
			for(int k = 0; k < e.nt; ++k) M.at(e.tD[k], e.ti[k]) = e.next[k];
			if(o.kind == O_SAVE && e.file_id >= 0) M.files[e.file_id] = e.file_next;
			p.ops.push_back(o);
		}
		return p;
	}
};

}  // namespace sim
