// Type-erased views: a real multi::subarray is re-materialised from (layout, base) between steps, so the
// view-forming operations run as real library code while the harness does not pay for nested
// continuation types.  AnyView never outlives the operation that created it.
#pragma once
#include <tuple>
#include <type_traits>
#include <utility>

#include <boost/multi/array.hpp>

#include "model.hpp"
#include "ptr.hpp"

namespace sim {

namespace multi = boost::multi;

template<class E, class P>
struct AnyView {
	int D = 0;
	P   base{};
	std::tuple<multi::layout_t<1>, multi::layout_t<2>, multi::layout_t<3>, multi::layout_t<4>, multi::layout_t<5>> lays;
	template<int D_> auto lay() -> multi::layout_t<D_>& { return std::get<D_ - 1>(lays); }
	template<int D_> auto lay() const -> multi::layout_t<D_> const& { return std::get<D_ - 1>(lays); }
	template<int D_> auto make() const -> multi::subarray<E, D_, P> { return multi::subarray<E, D_, P>(lay<D_>(), base); }
};

template<class E, class P, class V>
void erase_view(V const& v, AnyView<E, P>& out) {
	constexpr int D = std::decay_t<V>::rank_v;
	static_assert(D >= 1 && D <= MAXD, "view dimensionality out of range");
	static_assert(std::is_same_v<typename std::decay_t<V>::layout_type, multi::layout_t<D>>, "unexpected layout type");
	out.D    = D;
	out.base = unconst(v.base());
	out.template lay<D>() = v.layout();
}

template<class Tuple, std::size_t... I> void tuple_to_ints_v(Tuple const& t, int* out, std::index_sequence<I...>) {
	using boost::multi::detail::get;
	((out[I] = static_cast<int>(get<I>(t))), ...);
}

template<class F> bool dispatch_dim(int D, F&& f) {
	switch(D) {
	case 1: f(std::integral_constant<int, 1>{}); return true;
	case 2: f(std::integral_constant<int, 2>{}); return true;
	case 3: f(std::integral_constant<int, 3>{}); return true;
	case 4: f(std::integral_constant<int, 4>{}); return true;
	default: return false;
	}
}

// applies one step with real library code; the model has already decided that the step is in domain
template<class E, class P, int D>
void apply_step_real_D(AnyView<E, P>& v, Step const& s) {
	using irange = multi::irange;
	auto sub = v.template make<D>();
	auto const& csub = sub;
	auto out = [&](auto&& r) { erase_view<E, P>(r, v); };
	switch(s.kind) {
	case S_PAREN:
		if(s.mode == 0) out(std::move(sub)());
		else if(s.mode == 1) out(sub());
		else out(csub());
		break;
	case S_IDX:
		if constexpr(D >= 2) {
			if(s.mode == 0) out(std::move(sub)[s.a]);
			else if(s.mode == 1) out(sub[s.a]);
			else out(csub[s.a]);
		}
		break;
	case S_SLICED:
		if(s.mode == 0) out(std::move(sub).sliced(s.a, s.b));
		else if(s.mode == 1) out(sub.sliced(s.a, s.b));
		else out(csub.sliced(s.a, s.b));
		break;
	case S_RANGE:
		if(s.mode == 0) out(std::move(sub).range(irange(s.a, s.b)));
		else if(s.mode == 1) out(sub.range(irange(s.a, s.b)));
		else out(csub.range(irange(s.a, s.b)));
		break;
	case S_STRIDED:
		if(s.mode == 0) out(std::move(sub).strided(s.a));
		else out(sub.strided(s.a));
		break;
	case S_DROPPED:
		if(s.mode == 0) out(std::move(sub).dropped(s.a));
		else out(sub.dropped(s.a));
		break;
	case S_TAKED:  // taked() const& does not compile at the pinned commit (DESIGN 9.12): never instantiated
		if(s.mode == 0) out(std::move(sub).taked(s.a));
		else out(sub.taked(s.a));
		break;
	case S_ROTATED:
		if constexpr(D >= 2) {
			if(s.mode == 0) out(std::move(sub).rotated());
			else if(s.mode == 1) out(sub.rotated());
			else out(csub.rotated());
		}
		break;
	case S_UNROTATED:
		if constexpr(D >= 2) {
			if(s.mode == 0) out(std::move(sub).unrotated());
			else if(s.mode == 1) out(sub.unrotated());
			else out(csub.unrotated());
		}
		break;
	case S_TRANSPOSED:
		if constexpr(D >= 2) {
			if(s.mode == 0) out(std::move(sub).transposed());
			else if(s.mode == 1) out(sub.transposed());
			else out(csub.transposed());
		}
		break;
	case S_REVERSED:
		if constexpr(D >= 2) {
			if(s.mode == 0) out(std::move(sub).reversed());
			else out(sub.reversed());
		}
		break;
	case S_DIAGONAL:
		if constexpr(D >= 2) {
			if(s.mode == 0) out(std::move(sub).diagonal());
			else if(s.mode == 1) out(sub.diagonal());
			else out(csub.diagonal());
		}
		break;
	case S_PARTITIONED:
		if constexpr(D + 1 <= MAXD) {
			if(s.mode == 0) out(std::move(sub).partitioned(s.a));
			else if(s.mode == 1) out(sub.partitioned(s.a));
			else out(csub.partitioned(s.a));
		}
		break;
	case S_CHUNKED:
		if constexpr(D + 1 <= MAXD) {
			if(s.mode == 0) out(std::move(sub).chunked(s.a));
			else if(s.mode == 1) out(sub.chunked(s.a));
			else out(csub.chunked(s.a));
		}
		break;
	case S_HALVED:  // const& overload only
		if constexpr(D + 1 <= MAXD) out(csub.halved());
		break;
	case S_FLATTED:
		if constexpr(D >= 2) {
			if(s.mode == 0) out(std::move(sub).flatted());
			else if(s.mode == 1) out(sub.flatted());
			else out(csub.flatted());
		}
		break;
	case S_CALL: {
		// argument kinds: 0 index, 1 range, 2 all (spelled as the full range)
		auto sizes = sub.sizes();
		auto full  = [&](int k) -> irange {
            int nn[MAXD + 1]{};
            tuple_to_ints_v(sizes, nn, std::make_index_sequence<D>{});
            return irange(0, nn[k]);
		};
		auto r = [&](int k) -> irange { return s.ak[k] == 1 ? irange(s.aa[k], s.ab[k]) : full(k); };
		int const code = (s.nargs >= 1 && s.ak[0] == 0 ? 1 : 0) | (s.nargs >= 2 && s.ak[1] == 0 ? 2 : 0) | (s.nargs >= 3 && s.ak[2] == 0 ? 4 : 0);
		multi::index const i0 = s.aa[0], i1 = s.aa[1], i2 = s.aa[2];
		if(s.nargs == 1) {
			if constexpr(D >= 2) {
				if(code & 1) { if(s.mode == 2) out(csub(i0)); else out(sub(i0)); break; }
			}
			if(s.mode == 2) out(csub(r(0))); else out(sub(r(0)));
		} else if(s.nargs == 2) {
			if constexpr(D >= 2) {
				if constexpr(D >= 3) {
					if(code == 3) { if(s.mode == 2) out(csub(i0, i1)); else out(sub(i0, i1)); break; }
				}
				if(code == 1) { if(s.mode == 2) out(csub(i0, r(1))); else out(sub(i0, r(1))); break; }
				if(code == 2) { if(s.mode == 2) out(csub(r(0), i1)); else out(sub(r(0), i1)); break; }
				if(code == 0) { if(s.mode == 2) out(csub(r(0), r(1))); else out(sub(r(0), r(1))); break; }
			}
		} else if(s.nargs == 4) {
			if constexpr(D >= 4) {
				// every combination of index / range arguments, through nested generic lambdas
				auto arg = [&](int k, auto&& f) {
					if(s.ak[k] == 0) f(static_cast<multi::index>(s.aa[k]));
					else f(r(k));
				};
				arg(0, [&](auto a0) { arg(1, [&](auto a1) { arg(2, [&](auto a2) { arg(3, [&](auto a3) {
					constexpr int nidx = (std::is_same_v<decltype(a0), multi::index> ? 1 : 0) + (std::is_same_v<decltype(a1), multi::index> ? 1 : 0) + (std::is_same_v<decltype(a2), multi::index> ? 1 : 0) + (std::is_same_v<decltype(a3), multi::index> ? 1 : 0);
					if constexpr(D - nidx >= 1) {
						if(s.mode == 0) out(std::move(sub)(a0, a1, a2, a3));
						else if(s.mode == 1) out(sub(a0, a1, a2, a3));
						else out(csub(a0, a1, a2, a3));
					}
				}); }); }); });
			}
		} else if(s.nargs == 3) {
			if constexpr(D >= 3) {
				if constexpr(D >= 4) {
					if(code == 7) { if(s.mode == 2) out(csub(i0, i1, i2)); else out(sub(i0, i1, i2)); break; }
				}
				switch(code) {
				case 0: if(s.mode == 2) out(csub(r(0), r(1), r(2))); else out(sub(r(0), r(1), r(2))); break;
				case 1: if(s.mode == 2) out(csub(i0, r(1), r(2))); else out(sub(i0, r(1), r(2))); break;
				case 2: if(s.mode == 2) out(csub(r(0), i1, r(2))); else out(sub(r(0), i1, r(2))); break;
				case 3: if(s.mode == 2) out(csub(i0, i1, r(2))); else out(sub(i0, i1, r(2))); break;
				case 4: if(s.mode == 2) out(csub(r(0), r(1), i2)); else out(sub(r(0), r(1), i2)); break;
				case 5: if(s.mode == 2) out(csub(i0, r(1), i2)); else out(sub(i0, r(1), i2)); break;
				case 6: if(s.mode == 2) out(csub(r(0), i1, i2)); else out(sub(r(0), i1, i2)); break;
				default: break;
				}
			}
		}
		break;
	}
	default: break;
	}
}

template<class E, class P>
void apply_step_real(AnyView<E, P>& v, Step const& s) {
	switch(v.D) {
	case 1: apply_step_real_D<E, P, 1>(v, s); break;
	case 2: apply_step_real_D<E, P, 2>(v, s); break;
	case 3: apply_step_real_D<E, P, 3>(v, s); break;
	case 4: apply_step_real_D<E, P, 4>(v, s); break;
	default: break;
	}
}

template<class E, class P>
void apply_chain_real(AnyView<E, P>& v, Chain const& c) {
	for(int i = 0; i < c.n; ++i) apply_step_real(v, c.s[i]);
}

}  // namespace sim
