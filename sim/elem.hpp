// Simulated element types: TrackedT<NoexceptMove> (observable lifetime, injected exceptions),
// Conv (convertible source type), Triv (trivially copyable: memory effects only).
#pragma once
#include <cstring>
#include <string>
#include <type_traits>

#include "world.hpp"

namespace sim {

inline constexpr i64 MOVED_FROM = -7777;                                // value of a moved-from Tracked
inline constexpr i64 FRESH_I64  = static_cast<i64>(0xA5A5A5A5A5A5A5A5ull);  // bit pattern of a fresh, never written block

struct Conv {
	i64 v = 0;
};

// NoexceptMoveAssign defaults to NoexceptMove; TrackedMC has a throwing move constructor and a noexcept move assignment (a type for
// which a trait about one move operation says nothing about the other: seeded C09-r7b-m1)
template<bool NoexceptMove, bool NoexceptMoveAssign = NoexceptMove>
struct TrackedT {
	i64 v;
	u64 tag;
	static constexpr u64 LIVE = 0x4C49564554524B44ull, LIVE_OPX = 0x4C4956454F505844ull, DEAD = 0xDEADDEADDEADDEADull;

	bool is_live() const { return tag == LIVE || tag == LIVE_OPX; }

 private:
	void ctor_enter(char const* what) {
		if(W.in_region(this)) {
			HGuard hg;
			if(is_live()) W.violate("LIFE-ctor-over-live", std::string(what) + " constructs over a live object at " + W.describe(this));
			int const id = W.find_block(this);
			if(id < 0 || !W.blocks[static_cast<std::size_t>(id)].live) W.violate("LIFE-ctor-outside-block", std::string(what) + " constructs at " + W.describe(this) + " which is not inside a live block");
		}
	}
	void born() {
		if(W.in_region(this)) {
			tag = LIVE;
			++W.live_arena;
		} else if(W.in_op) {
			tag = LIVE_OPX;
			++W.live_ext;
			++W.live_ext_inop;
		} else {
			tag = LIVE;
			++W.live_ext;
		}
	}
	bool src_ok(TrackedT const& o, char const* what) const {
		if(!o.is_live()) {
			HGuard hg;
			W.violate("LIFE-use-of-dead", std::string(what) + " reads a dead object at " + W.describe(&o));
			return false;
		}
		return true;
	}
	bool dst_ok(char const* what) const {
		if(!is_live()) {
			HGuard hg;
			W.violate("LIFE-use-of-dead", std::string(what) + " assigns to a dead object at " + W.describe(this));
			return false;
		}
		return true;
	}

 public:
	TrackedT() {
		ctor_enter("default ctor");
		W.event(E_DCTOR);
		if(W.hit(F_DCTOR)) throw injected_fault{F_DCTOR, W.armed_k};
		v = 0;
		born();
	}
	explicit TrackedT(i64 x) {  // harness-side construction from a value; never faulted
		ctor_enter("value ctor");
		W.event(E_VCTOR);
		v = x;
		born();
	}
	TrackedT(Conv const& c) {  // NOLINT(google-explicit-constructor) : implicit on purpose (convertible element type)
		ctor_enter("converting ctor");
		W.event(E_CONV);
		if(W.hit(F_CONV)) throw injected_fault{F_CONV, W.armed_k};
		v = c.v;
		born();
	}
	TrackedT(TrackedT const& o) {
		ctor_enter("copy ctor");
		W.event(E_CCTOR);
		bool const ok = src_ok(o, "copy ctor");
		if(W.hit(F_CCTOR)) throw injected_fault{F_CCTOR, W.armed_k};
		v = ok ? o.v : -1;
		born();
	}
	TrackedT(TrackedT&& o) noexcept(NoexceptMove) {
		ctor_enter("move ctor");
		W.event(E_MCTOR);
		bool const ok = src_ok(o, "move ctor");
		if constexpr(!NoexceptMove) {
			if(W.hit(F_MCTOR)) throw injected_fault{F_MCTOR, W.armed_k};
		}
		v = ok ? o.v : -1;
		if(ok) o.v = MOVED_FROM;
		born();
	}
	auto operator=(TrackedT const& o) -> TrackedT& {
		W.event(E_CASSIGN);
		bool const ok = dst_ok("copy assignment") & src_ok(o, "copy assignment");
		if(W.hit(F_CASSIGN)) throw injected_fault{F_CASSIGN, W.armed_k};
		if(ok) v = o.v;
		return *this;
	}
	auto operator=(TrackedT&& o) noexcept(NoexceptMoveAssign) -> TrackedT& {
		W.event(E_MASSIGN);
		bool const ok = dst_ok("move assignment") & src_ok(o, "move assignment");
		if constexpr(!NoexceptMoveAssign) {
			if(W.hit(F_MASSIGN)) throw injected_fault{F_MASSIGN, W.armed_k};
		}
		if(ok && this != &o) {
			v   = o.v;
			o.v = MOVED_FROM;
		}
		return *this;
	}
	~TrackedT() {
		W.event(E_DTOR);
		if(!is_live()) {
			HGuard hg;
			W.violate("LIFE-dtor-of-dead", "destructor runs on a dead object at " + W.describe(this));
			return;
		}
		if(W.in_region(this)) {
			--W.live_arena;
		} else {
			--W.live_ext;
			if(tag == LIVE_OPX) --W.live_ext_inop;
		}
		tag = DEAD;
	}
	friend bool operator==(TrackedT const& a, TrackedT const& b) {
		bool const ok = a.src_ok(a, "operator==") & a.src_ok(b, "operator==");
		return ok && a.v == b.v;
	}
	friend bool operator!=(TrackedT const& a, TrackedT const& b) { return !(a == b); }
};

using Tracked   = TrackedT<true>;
using TrackedNM = TrackedT<false>;
using TrackedMC = TrackedT<false, true>;

struct Triv {
	i64 v;
	friend bool operator==(Triv const& a, Triv const& b) { return a.v == b.v; }
	friend bool operator!=(Triv const& a, Triv const& b) { return a.v != b.v; }
};
static_assert(std::is_trivially_copyable_v<Triv> && std::is_trivially_default_constructible_v<Triv>);

// trivially copyable and trivially destructible, but NOT trivially default constructible (default member initialiser):
// sizing constructors and reextent must value-initialise it although destruction can be skipped
struct Semi {
	i64 v = 0;
	friend bool operator==(Semi const& a, Semi const& b) { return a.v == b.v; }
	friend bool operator!=(Semi const& a, Semi const& b) { return a.v != b.v; }
};
static_assert(std::is_trivially_destructible_v<Semi> && !std::is_trivially_default_constructible_v<Semi>);

// not trivially default constructible (it owns a std::string) but with a scalar member and an implicit default
// constructor: value-initialisation zeroes `v`, default-initialisation leaves it untouched
struct SemiS {
	i64         v;
	std::string s;
	friend bool operator==(SemiS const& a, SemiS const& b) { return a.v == b.v; }
	friend bool operator!=(SemiS const& a, SemiS const& b) { return a.v != b.v; }
};
static_assert(!std::is_trivially_default_constructible_v<SemiS>);

// trivially default constructible and trivially destructible, but with a user-provided copy assignment that can fail: the
// library takes its "trivial element" shortcuts for it (assignment into fresh storage instead of construction), and those
// assignments can throw
struct TrivA {
	i64 v;
	TrivA() = default;
	TrivA(TrivA const&) = default;
	explicit TrivA(i64 x) : v{x} {}
	auto operator=(TrivA const& o) -> TrivA& {
		W.event(E_CASSIGN);
		if(W.hit(F_CASSIGN)) throw injected_fault{F_CASSIGN, W.armed_k};
		v = o.v;
		return *this;
	}
	~TrivA() = default;
	friend bool operator==(TrivA const& a, TrivA const& b) { return a.v == b.v; }
	friend bool operator!=(TrivA const& a, TrivA const& b) { return a.v != b.v; }
};
static_assert(std::is_trivially_default_constructible_v<TrivA> && std::is_trivially_destructible_v<TrivA> && !std::is_trivially_copyable_v<TrivA>);

struct ConvTriv {  // convertible to Triv; same size, other representation: a bit copy instead of a conversion shows as a wrong value
	i64 w = -1;
	ConvTriv() = default;
	explicit ConvTriv(i64 v) : w{~v} {}
	operator Triv() const { return Triv{~w}; }  // NOLINT
	operator TrivA() const { return TrivA{~w}; }  // NOLINT
};

// ---- uniform element access for the harness
template<class E> struct elem_traits;
template<bool N, bool A> struct elem_traits<TrackedT<N, A>> {
	using E    = TrackedT<N, A>;
	using conv = Conv;
	static constexpr bool tracked = true, throwing_move = !N, trivial = false;
	static auto make(i64 v) -> E { return E{v}; }
	static auto make_conv(i64 v) -> Conv { return Conv{v}; }
	// read with lifetime check; `ok` is cleared when the object is dead
	static auto read(E const& e, bool& ok) -> i64 {
		if(!e.is_live()) {
			ok = false;
			return -2;
		}
		return e.v;
	}
	static void write(E& e, i64 v) { e.v = v; }  // harness poke used only to fill array_ref backing stores
	static constexpr i64 value_init = 0;
};
template<> struct elem_traits<Triv> {
	using E    = Triv;
	using conv = ConvTriv;
	static constexpr bool tracked = false, throwing_move = false, trivial = true;
	static auto make(i64 v) -> E { return E{v}; }
	static auto make_conv(i64 v) -> ConvTriv { return ConvTriv{v}; }  // explicit constructor: stores the complement
	static auto read(E const& e, bool& /*ok*/) -> i64 { return e.v; }
	static void write(E& e, i64 v) { e.v = v; }
	static constexpr i64 value_init = 0;
};

template<> struct elem_traits<TrivA> {
	using E    = TrivA;
	using conv = ConvTriv;
	static constexpr bool tracked = false, throwing_move = false, trivial = true;
	static auto make(i64 v) -> E { return E{v}; }
	static auto make_conv(i64 v) -> ConvTriv { return ConvTriv{v}; }
	static auto read(E const& e, bool& /*ok*/) -> i64 { return e.v; }
	static void write(E& e, i64 v) { e.v = v; }
	static constexpr i64 value_init = 0;
};

template<> struct elem_traits<int> {
	using E    = int;
	using conv = int;
	static constexpr bool tracked = false, throwing_move = false, trivial = true;
	static auto make(i64 v) -> E { return static_cast<int>(v); }
	static auto make_conv(i64 v) -> conv { return static_cast<int>(v); }
	static auto read(E const& e, bool& /*ok*/) -> i64 { return e == static_cast<int>(0xA5A5A5A5u) ? FRESH_I64 : static_cast<i64>(e); }
	static void write(E& e, i64 v) { e = static_cast<int>(v); }
	static constexpr i64 value_init = 0;
};
template<> struct elem_traits<SemiS> {
	using E    = SemiS;
	using conv = SemiS;
	static constexpr bool tracked = false, throwing_move = false, trivial = false;
	static auto make(i64 v) -> E { return E{v, "s"}; }
	static auto make_conv(i64 v) -> conv { return make(v); }
	static auto read(E const& e, bool& /*ok*/) -> i64 { return e.v; }
	static void write(E& e, i64 v) { e.v = v; }
	static constexpr i64 value_init = 0;
};
template<> struct elem_traits<Semi> {
	using E    = Semi;
	using conv = Semi;
	static constexpr bool tracked = false, throwing_move = false, trivial = false;
	static auto make(i64 v) -> E {
		E e;
		e.v = v;
		return e;
	}
	static auto make_conv(i64 v) -> conv { return make(v); }
	static auto read(E const& e, bool& /*ok*/) -> i64 { return e.v; }
	static void write(E& e, i64 v) { e.v = v; }
	static constexpr i64 value_init = 0;
};
// ---- plain value element types (serialization coverage): no lifetime tracking, values mapped from/to i64
template<> struct elem_traits<double> {
	using E    = double;
	using conv = i64;  // another arithmetic type of the same size: converting it is not copying its bits (seeded C04-r7-m1)
	static constexpr bool tracked = false, throwing_move = false, trivial = true;
	static auto make(i64 v) -> E { return static_cast<double>(v); }
	static auto make_conv(i64 v) -> conv { return v; }
	static auto read(E const& e, bool& /*ok*/) -> i64 {
		i64 r;
		static_assert(sizeof r == sizeof e);
		if(e == static_cast<double>(static_cast<i64>(e)) && e > -1e15 && e < 1e15) return static_cast<i64>(e);
		std::memcpy(&r, &e, sizeof r);  // not an integer: a fresh block reads as FRESH_I64, anything else as its bit pattern with the top
		// bits flipped (the bits of an int64 copied into a double must not read as that int64: seeded C04-r7-m1)
		return r == FRESH_I64 ? r : (r ^ static_cast<i64>(0x7FF0000000000000ull));
	}
	static void write(E& e, i64 v) { e = static_cast<double>(v); }
	static constexpr i64 value_init = 0;
};
// a serialisable element that owns heap state; wrapped because a bare std::string element is itself a range and
// makes several array constructors ambiguous (not what any claimed property is about)
struct StrElem {
	std::string s;
	friend bool operator==(StrElem const& a, StrElem const& b) { return a.s == b.s; }
	friend bool operator!=(StrElem const& a, StrElem const& b) { return a.s != b.s; }
};
template<> struct elem_traits<StrElem> {
	using E    = StrElem;
	using conv = StrElem;
	static constexpr bool tracked = false, throwing_move = false, trivial = false;
	static auto make(i64 v) -> E { return E{v == 0 ? std::string{} : "value-" + std::to_string(v)}; }
	static auto make_conv(i64 v) -> conv { return make(v); }
	static auto read(E const& e, bool& ok) -> i64 {
		if(e.s.empty()) return 0;
		(void)ok;
		if(e.s.rfind("value-", 0) != 0) return -3;  // malformed (only possible after an injected stream fault): a value like any other
		return std::atoll(e.s.c_str() + 6);
	}
	static void write(E& e, i64 v) { e = make(v); }
	static constexpr i64 value_init = 0;
};

}  // namespace sim
