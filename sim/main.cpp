// msim worker: generates plans from seeds, executes them on one or two backends, reports violations.
//   run   --profile P --seed-base S --first I --count N [--sweep] [--hashes] [--max-viol K]
//   exec  --plan FILE
//   gen   --profile P --seed-base S --index I
#include <csignal>
#include <cstdio>
#include <cstdlib>
#include <cstring>
#include <exception>
#include <fstream>
#include <iostream>
#include <sstream>
#include <string>
#include <sys/resource.h>
#include <unistd.h>

#include "exec_api.hpp"

namespace sim {
extern Backend const* const g_primary;
extern Backend const* const g_secondary;  // may be null; differential partner (C11)
extern char const* const    g_binary_name;
}  // namespace sim

using namespace sim;

// ---- the global heap as a seam.  Calls made while a library operation executes (World::in_op, not from harness code) are either
// served from arena 0 of the simulated memory (backends over std::allocator: World::heap_route) - blocks with guard zones, a
// ledger entry, the ALLOC_FAIL fault point - or counted (all other backends: an operation over a simulated allocator has no
// business on the global heap unless its element type owns heap state).  Everything else is plain malloc/free.
static inline bool heap_seam_active() { return (W.in_op || (W.force_route > 0 && W.heap_route)) && W.harness_depth == 0 && W.region != nullptr; }
void* operator new(std::size_t n) {
	if(heap_seam_active()) {
		if(W.heap_route) return W.allocate(0, n, 1);
		++W.heap_allocs_in_op;
	}
	void* p = std::malloc(n != 0 ? n : 1);
	if(p == nullptr) throw std::bad_alloc{};
	return p;
}
void* operator new[](std::size_t n) { return ::operator new(n); }
void  operator delete(void* p) noexcept {
	if(p == nullptr) return;
	if(W.region != nullptr && W.in_region(p)) {
		int const id = W.find_block(p);
		W.deallocate(0, p, id >= 0 ? W.blocks[static_cast<std::size_t>(id)].n : 0, 1);  // unsized form: nothing to compare the size with
		return;
	}
	std::free(p);
}
void operator delete(void* p, std::size_t n) noexcept {
	if(p == nullptr) return;
	if(W.region != nullptr && W.in_region(p)) {
		W.deallocate(0, p, n, 1);
		return;
	}
	std::free(p);
}
void operator delete[](void* p) noexcept { ::operator delete(p); }
void operator delete[](void* p, std::size_t n) noexcept { ::operator delete(p, n); }

static std::string jesc(std::string const& s) {
	std::string o;
	for(char c : s) {
		switch(c) {
		case '"': o += "\\\""; break;
		case '\\': o += "\\\\"; break;
		case '\n': o += "\\n"; break;
		case '\t': o += "\\t"; break;
		default:
			if(static_cast<unsigned char>(c) < 0x20) {
				char b[8];
				std::snprintf(b, sizeof b, "\\u%04x", c);
				o += b;
			} else o += c;
		}
	}
	return o;
}

static u64 run_seed(u64 base, u64 index) {
	u64 x = base * 0x9E3779B97F4A7C15ull + index * 0xD1B54A32D192ED03ull + 0x1234567ull;
	return Rng::splitmix(x);
}

static void print_stats(FILE* f) {
	std::fprintf(f, "STATS {\"runs\":%llu,\"ops\":%llu,\"skipped\":%llu,\"ticks\":%llu,\"threw_ok\":%llu", (unsigned long long)G.runs, (unsigned long long)G.ops, (unsigned long long)G.skipped, (unsigned long long)G.ticks, (unsigned long long)G.threw_ok);
	std::fprintf(f, ",\"op_count\":{");
	bool first = true;
	for(int k = 0; k < O_COUNT; ++k)
		if(G.op_count[k]) {
			std::fprintf(f, "%s\"%s\":%llu", first ? "" : ",", op_name(k), (unsigned long long)G.op_count[k]);
			first = false;
		}
	std::fprintf(f, "},\"armed\":{");
	first = true;
	for(int k = 1; k < F_COUNT; ++k)
		if(G.armed[k]) {
			std::fprintf(f, "%s\"%s\":%llu", first ? "" : ",", fault_name(k), (unsigned long long)G.armed[k]);
			first = false;
		}
	std::fprintf(f, "},\"fired\":{");
	first = true;
	for(int k = 1; k < F_COUNT; ++k)
		if(G.fired[k]) {
			std::fprintf(f, "%s\"%s\":%llu", first ? "" : ",", fault_name(k), (unsigned long long)G.fired[k]);
			first = false;
		}
	std::fprintf(f, "},\"fired_by_op\":{");
	first = true;
	for(int o = 0; o < O_COUNT; ++o)
		for(int k = 1; k < F_COUNT; ++k)
			if(G.fired_by_op[o][k]) {
				std::fprintf(f, "%s\"%s|%s\":%llu", first ? "" : ",", op_name(o), fault_name(k), (unsigned long long)G.fired_by_op[o][k]);
				first = false;
			}
	std::fprintf(f, "},\"probes\":{");
	first = true;
	for(int k = 0; k < P_COUNT_; ++k) {
		std::fprintf(f, "%s\"%s\":%llu", first ? "" : ",", probe_name(k), (unsigned long long)W.probe[k]);
		first = false;
	}
	std::fprintf(f, "},\"events\":{");
	static char const* evn[] = {"allocate", "deallocate", "default_ctor", "value_ctor", "copy_ctor", "move_ctor", "copy_assign", "move_assign", "convert", "dtor", "stream_read", "stream_write"};
	first = true;
	for(int k = 0; k < E_COUNT; ++k) {
		std::fprintf(f, "%s\"%s\":%llu", first ? "" : ",", evn[k], (unsigned long long)W.ev_total[k]);
		first = false;
	}
	std::fprintf(f, "},\"situations\":[");
	first = true;
	for(u64 h : G.situations) {
		std::fprintf(f, "%s\"%llx%s\"", first ? "" : ",", (unsigned long long)h, G.situations_nontrivial.count(h) ? "" : "t");
		first = false;
	}
	std::fprintf(f, "]}\n");
	std::fflush(f);
}

static u64  g_cur_index = 0;
static bool g_print_stats_on_crash = false;

[[noreturn]] static void crash(char const* reason) {
	char const* inv = reason;
	// terminate while a fault is armed: the exception did not reach the caller
	std::string prop;
	bool const  fault_ctx = g_crash.fault_kind != F_NONE && W.fired;
	if(std::strcmp(reason, "TERMINATE") == 0) prop = fault_ctx ? "C09" : owner_property(g_crash.op_kind);
	else prop = fault_ctx ? "C09" : owner_property(g_crash.op_kind);
	std::printf("CRASH {\"index\":%llu,\"seed\":%llu,\"step\":%d,\"inv\":\"%s\",\"variant\":\"%s\",\"fault\":\"%s\",\"fault_fired\":%s,\"property\":\"%s\",\"detail\":\"%s\",\"binary\":\"%s\"}\n",
	    (unsigned long long)g_cur_index, (unsigned long long)g_crash.seed, g_crash.step, inv, jesc(g_crash.variant).c_str(), fault_name(W.fired ? g_crash.fault_kind : F_NONE), W.fired ? "true" : "false", prop.c_str(),
	    jesc(g_crash.assert_msg).c_str(), g_binary_name);
	std::fflush(stdout);
	if(g_print_stats_on_crash) print_stats(stdout);
	std::_Exit(70);
}

extern "C" void __assert_fail(char const* expr, char const* file, unsigned line, char const* func) {
	char const* base = std::strstr(file, "/include/boost/multi/");
	std::snprintf(g_crash.assert_msg, sizeof g_crash.assert_msg, "assertion `%s' failed at %s:%u (%s)", expr, base ? base + 9 : file, line, func ? func : "");
	crash("ABORT-assert");
}
static void on_signal(int sig) {
	std::snprintf(g_crash.assert_msg, sizeof g_crash.assert_msg, "signal %d", sig);
#if defined(__SANITIZE_ADDRESS__)
	if(sig == SIGABRT) {  // sanitizer builds run with abort_on_error=1: the report has just been written to stderr
		std::snprintf(g_crash.assert_msg, sizeof g_crash.assert_msg, "AddressSanitizer/UBSan report (see stderr of the replay)");
		crash("SANITIZER");
	}
#endif
	crash("ABORT-signal");
}
static void on_alarm(int /*sig*/) {
	std::snprintf(g_crash.assert_msg, sizeof g_crash.assert_msg, "a single simulated run did not finish within 10 s of real time (endless loop or runaway allocation)");
	crash("HANG");
}
static void on_terminate() {
	std::snprintf(g_crash.assert_msg, sizeof g_crash.assert_msg, "std::terminate called: an exception met a noexcept boundary or escaped a destructor");
	crash("TERMINATE");
}

static void print_violation(char const* tag, u64 index, Plan const& plan, RunResult const& r, char const* backend) {
	std::string extra = "[";
	for(std::size_t q = 0; q < r.extra.size(); ++q) extra += std::string(q ? "," : "") + "{\"property\":\"" + r.extra[q].property + "\",\"signature\":\"" + jesc(r.signature_of(r.extra[q])) + "\",\"detail\":\"" + jesc(r.extra[q].detail) + "\"}";
	extra += "]";
	std::printf("%s {\"index\":%llu,\"seed\":%llu,\"extra\":%s,\"property\":\"%s\",\"signature\":\"%s\",\"inv\":\"%s\",\"variant\":\"%s\",\"fault\":\"%s\",\"step\":%d,\"detail\":\"%s\",\"hash\":\"%016llx\",\"backend\":\"%s\",\"binary\":\"%s\",\"plan\":\"%s\"}\n",
	    tag, (unsigned long long)index, (unsigned long long)plan.seed, extra.c_str(), r.property.c_str(), jesc(r.signature()).c_str(), r.inv.c_str(), jesc(r.variant).c_str(), fault_name(r.fault_kind), r.step, jesc(r.detail).c_str(),
	    (unsigned long long)r.hash_full, backend, g_binary_name, jesc(plan_to_string(plan)).c_str());
	std::fflush(stdout);
}

// run a plan on the primary (and the secondary) backend; returns the result to report
static RunResult run_both(Plan const& plan, char const*& which) {
	which       = g_primary->name;
	RunResult r = g_primary->run(plan);
	if(g_secondary == nullptr || r.violated) return r;
	RunResult r2 = g_secondary->run(plan);
	if(r2.violated) {
		which = g_secondary->name;
		return r2;
	}
	bool faulted = false;
	for(auto const& o : plan.ops) faulted |= o.fk != F_NONE;
	// with an armed fault the k-th eligible event may legitimately fall into different places (e.g. decay() copies
	// twice when the default allocator of the pointer type differs from the array's): only fault-free plans are compared
	if(!faulted && r2.hash_obs != r.hash_obs) {
		which       = g_secondary->name;
		r2.violated = true;
		r2.inv      = "DIFF-raw-vs-fancy";
		r2.variant  = "PLAN";
		r2.property = "C11";
		r2.detail   = "the observable log of the same plan differs between the raw-pointer and the fancy-pointer build";
		r2.step     = -1;
		return r2;
	}
	return r;
}

int main(int argc, char** argv) {
	std::string mode = argc > 1 ? argv[1] : "";
	std::string profile = "all", planfile;
	u64 seed_base = 1, first = 0, count = 1, index = 0;
	bool sweep = false, hashes = false;
	int  max_viol = 50;
	for(int i = 2; i < argc; ++i) {
		std::string a = argv[i];
		auto next = [&]() -> char const* { return i + 1 < argc ? argv[++i] : ""; };
		if(a == "--profile") profile = next();
		else if(a == "--seed-base") seed_base = std::strtoull(next(), nullptr, 10);
		else if(a == "--first") first = std::strtoull(next(), nullptr, 10);
		else if(a == "--count") count = std::strtoull(next(), nullptr, 10);
		else if(a == "--index") index = std::strtoull(next(), nullptr, 10);
		else if(a == "--plan") planfile = next();
		else if(a == "--sweep") sweep = true;
		else if(a == "--hashes") hashes = true;
		else if(a == "--max-viol") max_viol = std::atoi(next());
		else {
			std::fprintf(stderr, "unknown argument %s\n", a.c_str());
			return 2;
		}
	}
	std::set_terminate(on_terminate);
	for(int s : {SIGSEGV, SIGBUS, SIGFPE, SIGABRT, SIGILL}) std::signal(s, on_signal);
	std::signal(SIGALRM, on_alarm);
#if !defined(__SANITIZE_ADDRESS__)  // ASan reserves terabytes of address space for its shadow memory
	{
		struct rlimit rl;
		rl.rlim_cur = rl.rlim_max = static_cast<rlim_t>(3) << 30;  // 3 GiB of address space per worker: a corrupted size must fail fast
		setrlimit(RLIMIT_AS, &rl);
	}
#endif
	W.init();
	g_primary->setup();
	g_crash.binary = g_binary_name;
	Profile const P = profile_by_name(profile);

	if(mode == "gen") {
		Gen  g(run_seed(seed_base, index), g_primary->traits, P);
		Plan p = g.generate();
		p.seed = run_seed(seed_base, index);
		std::fputs(plan_to_string(p).c_str(), stdout);
		return 0;
	}
	if(mode == "exec") {
		std::stringstream ss;
		if(planfile == "-") ss << std::cin.rdbuf();
		else {
			std::ifstream in(planfile);
			if(!in) {
				std::fprintf(stderr, "cannot open %s\n", planfile.c_str());
				return 2;
			}
			ss << in.rdbuf();
		}
		Plan        p;
		std::string err;
		if(!parse_plan(ss.str(), p, err)) {
			std::fprintf(stderr, "bad plan: %s\n", err.c_str());
			return 2;
		}
		g_crash.seed = p.seed;
		char const* which = "";
		alarm(10);
		RunResult   r     = run_both(p, which);
		alarm(0);
		if(r.violated) print_violation("VIOL", 0, p, r, which);
		std::printf("RESULT {\"violated\":%s,\"hash\":\"%016llx\",\"hash_obs\":\"%016llx\",\"ops_executed\":%d,\"ops_skipped\":%d}\n", r.violated ? "true" : "false", (unsigned long long)r.hash_full, (unsigned long long)r.hash_obs, r.ops_executed, r.ops_skipped);
		return 0;
	}
	if(mode != "run") {
		std::fprintf(stderr, "usage: %s run|exec|gen ...\n", argv[0]);
		return 2;
	}
	g_print_stats_on_crash = true;
	int nviol = 0;
	u64 sweep_runs = 0, sweep_capped = 0;
	for(u64 i = first; i < first + count && nviol < max_viol; ++i) {
		g_cur_index  = i;
		u64 const sd = run_seed(seed_base, i);
		Gen       g(sd, g_primary->traits, P);
		Plan      p = g.generate();
		p.seed      = sd;
		g_crash.seed = sd;
		alarm(10);  // re-armed for every history (a sweep re-arms it per history, not per injection point)
		if(!sweep) {
			char const* which = "";
			RunResult   r     = run_both(p, which);
			if(hashes) std::printf("H %llu %016llx %016llx\n", (unsigned long long)i, (unsigned long long)r.hash_full, (unsigned long long)r.hash_obs);
			if(r.violated) {
				print_violation("VIOL", i, p, r, which);
				++nviol;
			}
			continue;
		}
		// fault enumeration: fault-free base run, then one run per (op, kind, k)
		for(auto& o : p.ops) {
			o.fk = F_NONE;
			o.fn = -1;
		}
		g_collect_fcnt = true;
		g_fcnt.clear();
		char const* which = "";
		RunResult   r     = run_both(p, which);
		g_collect_fcnt    = false;
		if(r.violated) {
			print_violation("VIOL", i, p, r, which);
			++nviol;
			continue;
		}
		auto const counts = g_fcnt;
		int        budget = 400;
		for(std::size_t j = 0; j < p.ops.size() && j < counts.size() && nviol < max_viol; ++j) {
			for(int f = 1; f < F_COUNT && nviol < max_viol; ++f) {
				for(int k = 0; k < counts[j][static_cast<std::size_t>(f)]; ++k) {
					if(budget-- <= 0) {
						++sweep_capped;
						goto next_history;
					}
					Plan q        = p;
					q.ops[j].fk   = f;
					q.ops[j].fn   = k;
					RunResult r2  = run_both(q, which);
					++sweep_runs;
					if(r2.violated) {
						print_violation("VIOL", i, q, r2, which);
						++nviol;
						break;  // next kind: further k of the same (op, kind) almost always repeat the signature
					}
				}
			}
		}
	next_history:;
	}
	std::printf("SWEEP {\"runs\":%llu,\"capped_histories\":%llu}\n", (unsigned long long)sweep_runs, (unsigned long long)sweep_capped);
	print_stats(stdout);
	return 0;
}
