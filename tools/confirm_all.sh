#!/bin/bash
# usage: confirm_all.sh <PROP>: confirms every delivered change of /tmp/wt_<PROP>/out/m*/ one after the other (same worktree, same
# build directory) and leaves the verdict in out/m<k>/confirm.txt for process_seed.py (MSIM_CONFIRM_CACHED=1)
P=$1; WT=/tmp/wt_$P
for M in $WT/out/m*; do
  [ -f $M/patch.diff ] || continue
  [ -f $M/confirm.txt ] && continue
  $(dirname "$0")/confirm_seed.sh $WT $M > $M/confirm.tmp 2>&1
  mv $M/confirm.tmp $M/confirm.txt
done
