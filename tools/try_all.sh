#!/bin/bash
# usage: try_all.sh <patch.diff> : applies the change to a scratch clone of /repo (MSIM_REPO, default /tmp/repo_scratch),
# runs every claimed property's quick check against it and prints which raise an alarm; the clone is restored afterwards.
PATCH=$1
export MSIM_REPO=${MSIM_REPO:-/tmp/repo_scratch}
VERIF=$(cd "$(dirname "$0")/.." && pwd)
cd "$VERIF"
git -C "$MSIM_REPO" checkout -q -- . 
git -C "$MSIM_REPO" apply "$PATCH" || { echo "patch does not apply"; exit 2; }
for P in C04 C05 C06 C08 C09 C10 C11 C17 C18; do
  ./check run $P --tier quick > /tmp/try_all_$$.log 2>&1; RC=$?
  echo "  $P exit=$RC $(grep -E '^  signature' /tmp/try_all_$$.log | head -2 | tr '\n' ' ' | cut -c1-200) $(grep -E 'harness error' /tmp/try_all_$$.log | head -1 | cut -c1-160)"
done
rm -f /tmp/try_all_$$.log
git -C "$MSIM_REPO" checkout -q -- .
git -C "$VERIF" checkout -- evidence 2>/dev/null
