#!/bin/bash
# usage: confirm_seed.sh <worktree> <mutation dir> ; confirms in the scratch worktree that the mutation
# compiles, passes the 78 existing tests, and that the demonstration passes without and fails with it.
set -u
WT=$1; M=$2
cd "$WT" || exit 2
git checkout -q -- include
res() { echo "$@"; }
FL=""
CXXC=g++; LIBS=""
case "$WT" in *C18*) CXXC=mpicxx; export OMPI_ALLOW_RUN_AS_ROOT=1 OMPI_ALLOW_RUN_AS_ROOT_CONFIRM=1 ;; *C17*) LIBS="-lboost_serialization" ;; esac
grep -q -- "-DNDEBUG" "$M/notes.md" 2>/dev/null && grep -qi "needs -DNDEBUG\|compile.*-DNDEBUG" "$M/notes.md" && FL="-DNDEBUG"
$CXXC -std=c++17 -O1 $FL -I"$WT/include" "$M/demo.cpp" -o /tmp/demo_clean_$$ $LIBS 2>/tmp/demo_err_$$ || { res "DEMO-COMPILE-FAIL(clean)"; head -5 /tmp/demo_err_$$; exit 1; }
timeout 60 /tmp/demo_clean_$$ >/dev/null 2>&1; RC_CLEAN=$?
git apply "$M/patch.diff" || { res "PATCH-DOES-NOT-APPLY"; exit 1; }
$CXXC -std=c++17 -O1 $FL -I"$WT/include" "$M/demo.cpp" -o /tmp/demo_mut_$$ $LIBS 2>/tmp/demo_err_$$ || { res "DEMO-COMPILE-FAIL(mutated)"; git checkout -q -- include; exit 1; }
timeout 60 /tmp/demo_mut_$$ >/dev/null 2>&1; RC_MUT=$?
[ -d _b ] || cmake -G Ninja -B _b -DCMAKE_BUILD_TYPE=RelWithDebInfo -DCMAKE_CXX_FLAGS=-Wno-error >/dev/null 2>&1
cmake --build _b -j${MSIM_BUILD_JOBS:-16} >/tmp/build_$$.log 2>&1; RC_BUILD=$?
PASSED=$(OMPI_ALLOW_RUN_AS_ROOT=1 OMPI_ALLOW_RUN_AS_ROOT_CONFIRM=1 ctest --test-dir _b -j${MSIM_CTEST_JOBS:-8} 2>&1 | grep -o "[0-9]*% tests passed, [0-9]* tests failed out of [0-9]*")
git checkout -q -- include
rm -f /tmp/demo_clean_$$ /tmp/demo_mut_$$ /tmp/demo_err_$$ /tmp/build_$$.log
res "demo_clean_rc=$RC_CLEAN demo_mutated_rc=$RC_MUT build_rc=$RC_BUILD tests='$PASSED' flags='$FL'"
