#!/bin/bash
# usage: try_seed.sh <property> <patch.diff> [tier]; applies the change to /repo, runs the property's check, undoes it straight afterwards
PROP=$1; PATCH=$2; TIER=${3:-quick}
REPO=${MSIM_REPO:-/repo}
VERIF=$(cd "$(dirname "$0")/.." && pwd)
cd "$VERIF"
git -C "$REPO" apply "$PATCH" || { echo "patch does not apply"; exit 2; }
START=$(date +%s)
./check run $PROP --tier $TIER > /tmp/try_seed_$$.log 2>&1; RC=$?
END=$(date +%s)
git -C "$REPO" checkout -- .
echo "property=$PROP exit=$RC wall=$((END-START))s"
grep -E "^VIOLATION|^  signature|^  detail|^KNOWN|^INFO|harness error" /tmp/try_seed_$$.log | cut -c1-260 | head -12
rm -f /tmp/try_seed_$$.log
# evidence and replays written during a seeded run do not describe the unchanged tree
git -C "$VERIF" checkout -- evidence 2>/dev/null
