#!/usr/bin/env python3
"""Re-runs the owning property's quick check (plus recorded extra checks) against every kept seed and refreshes meta.json."""
import glob, json, os, re, subprocess, sys
VERIF = os.path.dirname(os.path.dirname(os.path.abspath(__file__)))
only = sys.argv[1:] 
rows = []
for d in sorted(glob.glob(VERIF + '/seeded/*/')):
    name = os.path.basename(d.rstrip('/'))
    if not os.path.exists(d + 'meta.json'):
        continue
    if only and not any(name.startswith(o) for o in only):
        continue
    meta = json.load(open(d + 'meta.json'))
    for p in list(meta['checks'].keys()):
        out = subprocess.run([VERIF + '/tools/try_seed.sh', p, d + 'patch.diff'], stdout=subprocess.PIPE, stderr=subprocess.STDOUT, text=True).stdout
        rc = re.search(r'exit=(\d+)', out)
        sigs = re.findall(r'signature: (.*)', out)
        meta['checks'][p] = {'exit': int(rc.group(1)) if rc else None, 'signatures': sigs, 'wall': (re.search(r'wall=(\d+)s', out) or [None, None])[1]}
    meta['detected'] = meta['checks'][meta['property']]['exit'] == 1
    meta['detected_by_any_check'] = any(v['exit'] == 1 for v in meta['checks'].values())
    json.dump(meta, open(d + 'meta.json', 'w'), indent=1)
    rows.append((name, meta['detected'], {p: v['exit'] for p, v in meta['checks'].items()}, meta['checks'][meta['property']]['wall']))
    print(rows[-1], flush=True)
