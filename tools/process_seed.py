#!/usr/bin/env python3
"""usage: process_seed.py <PROP> <k> [extra checks...]: confirm the mutation in its scratch worktree, run the property's check against it
(applied to /repo, undone afterwards) and file it under /verif/seeded/<PROP>-m<k>/ with meta.json."""
import json, os, re, shutil, subprocess, sys
prop, k = sys.argv[1], sys.argv[2]
tag = sys.argv[3] if len(sys.argv) > 3 else ''
extra = sys.argv[4:]
wt = '/tmp/wt_%s' % prop
m = '%s/out/m%s' % (wt, k)
dst = '/verif/seeded/%s-%sm%s' % (prop, tag + '-' if tag else '', k)
RP = os.environ.get('MSIM_REPO', '/repo')
VT = os.environ.get('MSIM_VERIF', '/verif')  # a frozen snapshot of /verif may run the checks while /verif itself is being edited
cached = os.path.join(m, 'confirm.txt')  # written by an earlier (parallel, background) run of confirm_seed.sh in the same worktree
if os.environ.get('MSIM_CONFIRM_CACHED') and os.path.exists(cached):
    conf = open(cached).read().strip()
else:
    conf = subprocess.run([VT + '/tools/confirm_seed.sh', wt, m], stdout=subprocess.PIPE, stderr=subprocess.STDOUT, text=True).stdout.strip()
print('confirm:', conf)
ok = 'demo_clean_rc=0' in conf and 'demo_mutated_rc=0' not in conf and '100% tests passed, 0 tests failed out of 78' in conf and 'build_rc=0' in conf
results = {}
for p in [prop] + extra:
    out = subprocess.run([VT + '/tools/try_seed.sh', p, m + '/patch.diff'], stdout=subprocess.PIPE, stderr=subprocess.STDOUT, text=True).stdout
    print(out)
    rc = re.search(r'exit=(\d+)', out)
    sigs = re.findall(r'signature: (.*)', out)
    results[p] = {'exit': int(rc.group(1)) if rc else None, 'signatures': sigs, 'wall': (re.search(r'wall=(\d+)s', out) or [None, None])[1]}
if not ok:
    print('NOT CONFIRMED - not kept')
    sys.exit(1)
os.makedirs(dst, exist_ok=True)
for f in ('patch.diff', 'demo.cpp', 'notes.md'):
    shutil.copy(os.path.join(m, f), os.path.join(dst, f))
notes = open(os.path.join(m, 'notes.md')).read()
meta = {
    'property': prop, 'origin': 'fresh sub-agent given only the property text and a scratch worktree (/tmp/wt_%s)' % prop,
    'needs_to_manifest': ' '.join(notes.split())[:900],
    'confirmed_in_scratch_worktree': conf,
    'what_was_run': ['tools/confirm_seed.sh %s %s  (demo on clean tree, demo with patch, cmake --build + ctest of the 78 tests with patch)' % (wt, m)] +
                    ['tools/try_seed.sh %s %s/patch.diff  (git -C %s apply; ./check run %s --tier quick; git -C %s checkout -- .)%s' % (p, dst, RP, p, RP, '' if RP == '/repo' else '  [%s is a scratch clone of /repo at the same commit, checks run from a worktree of /verif HEAD: parallel lane]' % RP) for p in results],
    'checks': results,
    'detected': results[prop]['exit'] == 1,
}
json.dump(meta, open(os.path.join(dst, 'meta.json'), 'w'), indent=1)
print('kept as', dst, 'detected =', meta['detected'])
